"""C17 Workflows execute as their task graph specifies: W1 task tuple layout and key uniqueness,
W2 order-preserving post-processing, W3 dispatcher dataflow, W4 graph ownership and order-preserving
replacement / insertion, W5 static arity of Task(...) sites."""
from __future__ import annotations

import ast

from sa.cfg import CFG
from sa.report import AnalysisError
from sa.srcmodel import unparse, walk_no_nested, calls_in, dotted, owner_class

WF = 'pharmpy.workflows.workflow'


def names(node):
    return {n.id for n in ast.walk(node) if isinstance(n, ast.Name)}


def run(chk, repo, tier):
    wm = repo.module(WF)
    rel = wm.rel
    chk.explanation = (
        'W1: in as_dask_dict the value stored under a task key is (task.function, *static inputs, *predecessor keys) '
        'built in that order, every key has a per-task unique component, exactly one sink is renamed `results`. W2: '
        'insert_context prepends the context, execute_workflow re-creates task inputs positionally, the scatter pass '
        'keeps element 0 and maps the rest positionally. W3: the dict handed to dask derives from '
        'workflow.as_dask_dict() only through those functions. W4: the graph is written only by the builder / '
        'constructors; replace_task keeps the position of the task (no in-place relabel); insert_workflow pairs the '
        'caller\'s predecessor list as given. W5: Task(name, fn, *static) never passes more static inputs than fn can '
        'take. NOT decided: dask\'s scheduler (exactly-once, ordering): external code.')
    W1 = chk.rule('W1', 'dask tuple layout (function, *static, *predecessor keys); unique key per task; single sink '
                        'renamed results', floor=3)
    W2 = chk.rule('W2', 'post-processing of task inputs is positional: context prepended, inputs re-created in order, '
                        'scatter keeps element 0', floor=4)
    W3 = chk.rule('W3', 'the graph given to dask derives from as_dask_dict() of the workflow parameter', floor=2)
    W4 = chk.rule('W4', 'graph written only by builder/constructors; replacement keeps task position; insertion '
                        'pairs predecessors as given', floor=6)
    W5 = chk.rule('W5', 'Task(name, fn, *static): number of static inputs does not exceed fn\'s positional '
                        'parameters (definite errors only)', floor=60)

    wf = wm.classes.get('Workflow')
    wb = wm.classes.get('WorkflowBuilder')
    if wf is None or wb is None:
        raise AnalysisError('Workflow / WorkflowBuilder not found')
    dd = wf.methods.get('as_dask_dict')
    if dd is None:
        raise AnalysisError('Workflow.as_dask_dict not found')
    dd = repo.follow_delegation(dd)      # the method may hand over to a function of another module
    rel = dd.module.rel if dd.module is not wm else rel

    # ------------------------------------------------------------------ W1
    # (a) value layout: the content of the stored tuple, however it is assembled (sa/seqs.py)
    from sa import reach, seqs, guards as G_
    cfg = CFG(dd.node)
    PREDS = ('self._g.predecessors(task)', 'self.get_predecessors(task)')
    graph_stores = []
    for n in cfg.nodes.values():
        if n.kind == 'stmt' and isinstance(n.ast, ast.Assign) and isinstance(n.ast.targets[0], ast.Subscript):
            v = reach.expand_expr(cfg, n.id, n.ast.value, depth=1) if isinstance(n.ast.value, ast.Name) else n.ast.value
            if isinstance(v, ast.Tuple):
                graph_stores.append((n, v))
    if not graph_stores:
        raise AnalysisError('W1: no `as_dict[key] = (function, ...)` store found in as_dask_dict')
    def getitem_call_as_subscript(e, at):
        # `d.__getitem__(x)`, also through a local alias `key_of = d.__getitem__; key_of(x)`, is `d[x]`
        if isinstance(e, ast.Call) and len(e.args) == 1 and not e.keywords:
            f = reach.expand_expr(cfg, at, e.func, depth=1) if isinstance(e.func, ast.Name) else e.func
            if isinstance(f, ast.Attribute) and f.attr == '__getitem__':
                return ast.Subscript(value=f.value, slice=e.args[0], ctx=ast.Load())
        return e
    key_dicts = set()
    for n, v in graph_stores:
        seq = seqs.sequence_of(cfg, n.id, v)
        chk.instance(W1, f'value layout {unparse(v)} = {seq}')
        # the loop variable over the tasks: `task` in every accepted form (for task in ...)
        ok = len(seq) == 3 and seq[0] == ('elem', 'task.function') and seq[1] == ('star', 'task.task_input') \
            and seq[2][0] == 'map' and (seq[2][2] in PREDS or seq[2][2].endswith(('._g.predecessors(task)', '.get_predecessors(task)'))) and not seq[2][3]
        kd = None
        if ok:
            try:
                e = ast.parse(seq[2][1], mode='eval').body
            except SyntaxError:
                e = None
            e = getitem_call_as_subscript(e, n.id)
            ok = isinstance(e, ast.Subscript) and isinstance(e.value, ast.Name) and unparse(e.slice) == '_'
            if ok:
                kd = reach.alias_root(cfg, n.id, e.value.id)
                key_dicts.add(kd)
        if not ok:
            if len(seq) < 1 or seq[0] != ('elem', 'task.function'):
                chk.violation(W1, rel, dd.qualname, unparse(v),
                              'the dask task tuple is not (task.function, *inputs)', line=n.line,
                              witness='any workflow: dask calls the wrong callable or passes the function as an argument')
            else:
                chk.violation(W1, rel, dd.qualname, f'{unparse(v)} construction',
                              'the argument list is not [*task.task_input] followed by the keys of all predecessors in '
                              f'graph order (found {seq[1:]})', line=n.line,
                              witness='a task with one static input and two predecessors: it is called with arguments in '
                                      'another order / without one predecessor result')
    # (b) unique keys: the stores into the key dictionary (the one the predecessor keys are read from)
    idst = []
    for n in cfg.nodes.values():
        a = n.ast
        if n.kind == 'stmt' and isinstance(a, ast.Assign) and isinstance(a.targets[0], ast.Subscript) \
                and isinstance(a.targets[0].value, ast.Name) and not isinstance(a.value, ast.Constant) \
                and (reach.alias_root(cfg, n.id, a.targets[0].value.id) in key_dicts
                     or (not key_dicts and a.targets[0].value.id == 'ids')):
            idst.append(a)
    loops = [n for n in walk_no_nested(dd.node) if isinstance(n, ast.For)]
    if not idst:
        raise AnalysisError('W1: key assignment ids[task] = ... not found')
    for a in idst:
        loop = next((lp for lp in loops if any(x is a for x in ast.walk(lp))), None)
        per_iter = False
        if loop is not None:
            for c in ast.walk(a.value):
                if isinstance(c, ast.Call) and (dotted(c.func) or '').endswith('uuid4'):
                    per_iter = True
            # or a loop index from enumerate / a counter incremented in the loop
            loopvars = names(loop.target)
            if isinstance(loop.iter, ast.Call) and dotted(loop.iter.func) == 'enumerate' \
                    and isinstance(loop.target, ast.Tuple) and names(loop.target.elts[0]) & names(a.value):
                per_iter = True
            uses_id = any(isinstance(c, ast.Call) and dotted(c.func) == 'id' for c in ast.walk(a.value))
            per_iter = per_iter or uses_id
            del loopvars
        chk.instance(W1, f'key {unparse(a.value)} unique per task: {per_iter}')
        if not per_iter:
            chk.violation(W1, rel, dd.qualname, unparse(a),
                          'the dask key of a task has no component that is unique per task', line=a.lineno,
                          witness='a fan-out of several tasks with the same name (built in a loop): they collapse onto '
                                  'one key, only one of them runs and the join receives its result several times')
    # (c) single sink: the store of 'results' happens only when there is exactly one output task, and the other
    #     outcome of that test raises
    def one_sink(at):
        def atom(e):
            if isinstance(e, ast.Compare) and len(e.ops) == 1 and isinstance(e.ops[0], (ast.Eq, ast.NotEq)) \
                    and isinstance(e.comparators[0], ast.Constant) and e.comparators[0].value == 1 \
                    and isinstance(e.left, ast.Call) and dotted(e.left.func) == 'len' and e.left.args:
                x = reach.expand_expr(cfg, at, e.left.args[0])
                if 'output_tasks' in unparse(x):
                    return isinstance(e.ops[0], ast.Eq)
            return None
        return atom
    sink_ok = False
    rstores = [n for n in cfg.nodes.values() if n.kind == 'stmt' and isinstance(n.ast, ast.Assign)
               and isinstance(n.ast.value, ast.Constant) and n.ast.value.value == 'results']
    rets = [n.id for n in cfg.nodes.values() if n.kind == 'return'] + [cfg.exit]
    for st_ in rstores:
        for t in [n for n in cfg.nodes.values() if n.kind == 'test' and n.ast is not None]:
            lab = G_.edge_label(t.ast, one_sink(t.id), G_.resolver(cfg, t.id))
            if lab and cfg.edge_dominates(t.id, lab, st_.id):
                other = 'false' if lab == 'true' else 'true'
                away = set()
                for s2 in cfg.succ(t.id, [other]):
                    away |= cfg.reachable(s2, labels_excluded=())
                raises = any(isinstance(cfg.nodes[x].ast, ast.Raise) for x in away) and not (away & set(rets))
                sink_ok = sink_ok or raises
    chk.instance(W1, f'single sink renamed results else raise: {sink_ok}')
    if not sink_ok:
        chk.violation(W1, rel, dd.qualname, 'sink handling',
                      'a workflow with several or no sinks is not refused / the sink is not named results',
                      line=dd.node.lineno, witness='a workflow with two output tasks silently returns one of them')

    # ------------------------------------------------------------------ W2
    ic = wm.functions.get('insert_context')
    if ic is None:
        raise AnalysisError('insert_context not found')
    cfg = CFG(ic.node)
    reps = [c for c in calls_in(ic.node) if isinstance(c.func, ast.Attribute) and c.func.attr == 'replace'
            and any(kw.arg == 'task_input' for kw in c.keywords)]
    okc = False
    for c in reps:
        nid = reach.node_containing(cfg, c)
        for kw in c.keywords:
            if kw.arg == 'task_input' and seqs.sequence_of(cfg, nid, kw.value) == [('elem', 'context'),
                                                                                   ('star', 'task.task_input')]:
                okc = True
    chk.instance(W2, f'insert_context: task_input=(context, *task.task_input): {okc}')
    if not okc:
        chk.violation(W2, rel, ic.qualname, unparse(reps[0]) if reps else 'no replace',
                      'the context is not prepended to the static inputs', line=ic.node.lineno,
                      witness='a task function f(context, x): it receives x as context')

    def first_param_is_context(at):
        # `parameters[0] == 'context'`, `list(params)[:1] == ['context']`, `next(iter(params), None) == 'context'`, in
        # either polarity, where params comes from inspect.signature(...)
        def atom(e):
            if not (isinstance(e, ast.Compare) and len(e.ops) == 1 and isinstance(e.ops[0], (ast.Eq, ast.NotEq))):
                return None
            sides = [e.left, e.comparators[0]]

            def is_ctx(x):
                return (isinstance(x, ast.Constant) and x.value == 'context') or (
                    isinstance(x, (ast.List, ast.Tuple)) and len(x.elts) == 1 and is_ctx(x.elts[0]))
            for a_, b_ in (sides, sides[::-1]):
                if is_ctx(a_):
                    txt = unparse(reach.expand_expr(cfg, at, b_)).replace(' ', '')
                    if 'signature(' in txt and ('[0]' in txt or '[:1]' in txt or 'next(iter(' in txt):
                        return isinstance(e.ops[0], ast.Eq)
            return None
        return atom
    guard = False
    for c in reps:
        nid = reach.node_containing(cfg, c)
        for t in [n for n in cfg.nodes.values() if n.kind == 'test' and n.ast is not None]:
            lab = G_.edge_label(t.ast, first_param_is_context(t.id), G_.resolver(cfg, t.id))
            if lab and nid is not None and cfg.edge_dominates(t.id, lab, nid):
                guard = True
    chk.instance(W2, f'insert_context: only for functions whose first parameter is named context: {guard}')
    if not guard:
        chk.violation(W2, rel, ic.qualname, 'guard on first parameter name',
                      'the context is inserted regardless of the task function signature', line=ic.node.lineno,
                      witness='a task function g(x) receives the context as x')
    em = repo.module('pharmpy.workflows.execute')
    ew = em.functions.get('execute_workflow')
    if ew is None:
        raise AnalysisError('execute_workflow not found')
    inner = [lp for lp in walk_no_nested(ew.node) if isinstance(lp, ast.For) and 'task_input' in unparse(lp.iter)]
    chk.instance(W2, f'execute_workflow: {len(inner)} loop(s) over task.task_input')
    ecfg = CFG(ew.node)
    for c in [c for c in calls_in(ew.node) if isinstance(c.func, ast.Attribute) and c.func.attr == 'replace'
              and any(kw.arg == 'task_input' for kw in c.keywords)]:
        nid = reach.node_containing(ecfg, c)
        sq = seqs.sequence_of(ecfg, nid, next(kw.value for kw in c.keywords if kw.arg == 'task_input'))
        direct = sq == [('star', 'task.task_input')]
        chk.instance(W2, f'execute_workflow: task_input re-created as {sq}')
        if not direct and not inner:
            chk.violation(W2, em.rel, ew.qualname, unparse(c)[:100],
                          'the static inputs of a re-created task are not the original ones in the original order',
                          line=c.lineno,
                          witness='a task with static inputs (model, 1, "x"): its function is called with other arguments')
    for lp in inner:
        cfg = CFG(ast.FunctionDef(name='_', args=ew.node.args, body=lp.body, decorator_list=[], lineno=lp.lineno,
                                  col_offset=0, end_lineno=lp.end_lineno, end_col_offset=0))
        apps = [n for n in cfg.nodes.values() if isinstance(n.ast, ast.Expr) and isinstance(n.ast.value, ast.Call)
                and isinstance(n.ast.value.func, ast.Attribute) and n.ast.value.func.attr == 'append'
                and unparse(n.ast.value.func.value).startswith('new_inp')]
        # every path through the body appends exactly one element to new_inp
        if not apps:
            continue
        skip = cfg.exit in cfg.reachable(cfg.entry, avoid={n.id for n in apps}, labels_excluded=('exc', 'fexc'))
        twice = any(set(cfg.reachable(s)) & {m.id for m in apps} for a_ in apps for s in cfg.g.successors(a_.id))
        chk.instance(W2, f'execute_workflow: one append per static input on every path: {not skip and not twice}')
        if skip or twice:
            chk.violation(W2, em.rel, ew.qualname, 'new_inp built from task.task_input',
                          'a static input can be dropped or duplicated when tasks are re-created', line=lp.lineno,
                          witness='a task with static inputs (model, 1, "x"): its function is called with fewer / more '
                                  'arguments')
    om = repo.module('pharmpy.workflows.dispatchers.local_dask.optimize')
    # the recursive scatter of a computation: found by shape (a function of optimize.py, module level or nested, that calls
    # itself and tests its last parameter with isinstance(.., tuple)), not by name
    cands = []
    for fn in [f_.node for f_ in om.functions.values()]:
        if isinstance(fn, ast.FunctionDef) and fn.args.args:
            par = fn.args.args[-1].arg
            rec = any(isinstance(c, ast.Call) and isinstance(c.func, ast.Name) and c.func.id == fn.name for c in ast.walk(fn))
            tst = any(isinstance(c, ast.Call) and dotted(c.func) == 'isinstance' and len(c.args) == 2
                      and unparse(c.args[0]) == par and 'tuple' in names(c.args[1]) for c in ast.walk(fn))
            if rec and tst:
                cands.append((fn, par))
    if not cands:
        raise AnalysisError('optimize.py: recursive scatter of a computation (isinstance(x, tuple) + self call) not found')
    for scn, par in cands:
        tup = [n for n in walk_no_nested(scn) if isinstance(n, ast.Return) and isinstance(n.value, ast.Tuple)]
        scfg = CFG(scn)
        oks = False
        for t in tup:
            sq = seqs.sequence_of(scfg, reach.node_of(scfg, t), t.value)
            # (computation[0], <f(_)> for every item of computation[1:], no filter), in any spelling
            if len(sq) == 2 and sq[0] == ('elem', f'{par}[0]') and sq[1][0] == 'map' and sq[1][2] == f'{par}[1:]' \
                    and not sq[1][3] and f'{scn.name}(' in sq[1][1] and '_' in names(ast.parse(sq[1][1], mode='eval')):
                oks = True
        chk.instance(W2, f'{scn.name} keeps element 0 and maps the rest positionally: {oks}')
        if not oks:
            chk.violation(W2, om.rel, scn.name, unparse(tup[0].value) if tup else 'no tuple return',
                          'scattering does not preserve (function, *args) positionally', line=scn.lineno,
                          witness='with the distributed dispatcher a task gets its arguments permuted or its function scattered')

    # ------------------------------------------------------------------ W3
    for modname, fname in (('pharmpy.workflows.dispatchers.local_dask.run', 'run'),
                           ('pharmpy.workflows.dispatchers.local_dask.call', 'call_workflow')):
        mod = repo.module(modname)
        f = mod.functions.get(fname)
        if f is None:
            raise AnalysisError(f'{modname}.{fname} not found')
        derived = set()
        for n in ast.walk(f.node):
            if isinstance(n, ast.Assign) and isinstance(n.targets[0], ast.Name):
                v = n.value
                if isinstance(v, ast.Call) and isinstance(v.func, ast.Attribute) and v.func.attr == 'as_dask_dict':
                    derived.add(n.targets[0].id)
        changed = True
        while changed:
            changed = False
            for n in ast.walk(f.node):
                if isinstance(n, ast.Assign) and isinstance(n.targets[0], ast.Name) and n.targets[0].id not in derived:
                    v = n.value
                    if isinstance(v, ast.Call) and dotted(v.func) in ('optimize_task_graph_for_dask_distributed',) \
                            and any(isinstance(a, ast.Name) and a.id in derived for a in v.args):
                        derived.add(n.targets[0].id)
                        changed = True
        gets = [c for c in ast.walk(f.node) if isinstance(c, ast.Call) and (
            dotted(c.func) == 'get' or (isinstance(c.func, ast.Attribute) and c.func.attr == 'get'
                                        and unparse(c.func.value) == 'client'))]
        if not gets:
            raise AnalysisError(f'{fname}: no dask get call found')
        for c in gets:
            a0 = c.args[0] if c.args else None
            ok = isinstance(a0, ast.Name) and a0.id in derived
            chk.instance(W3, f'{fname}: {unparse(c)[:60]} graph from as_dask_dict: {ok}')
            if not ok:
                chk.violation(W3, mod.rel, f.qualname, unparse(c),
                              'the graph handed to dask is not the one produced by workflow.as_dask_dict()',
                              line=c.lineno, witness='the dispatcher executes a different graph than the workflow declares')

    # ------------------------------------------------------------------ W4
    for f in repo.all_funcs():
        if not f.module.name.startswith('pharmpy.workflows'):
            continue
        oc = owner_class(f)
        for n in walk_no_nested(f.node):
            target = None
            if isinstance(n, ast.Assign):
                for t in n.targets:
                    if isinstance(t, ast.Attribute) and t.attr == '_g':
                        target = t
            if target is None:
                continue
            recv = unparse(target.value)
            allowed = (oc is wb) or (oc is wf and f.name in ('__init__',)) or \
                (recv != 'self' and isinstance(target.value, ast.Name) and any(
                    isinstance(x, ast.Assign) and isinstance(x.targets[0], ast.Name) and x.targets[0].id == recv
                    and isinstance(x.value, ast.Call) and dotted(x.value.func) in ('WorkflowBuilder', 'Workflow')
                    for x in walk_no_nested(f.node)))
            chk.instance(W4, f'{f.qualname}: {unparse(n)[:60]} (allowed={allowed})')
            # a graph taken over from another builder / workflow must be an independent copy (networkx copy(as_view=True) is a
            # live view)
            src_g = [x for x in ast.walk(n.value) if isinstance(x, ast.Attribute) and x.attr == '_g'
                     and unparse(x.value) != 'self']
            if src_g and f.name == '__init__':
                from sa.srcmodel import is_real_copy
                copied = any(is_real_copy(x) for x in ast.walk(n.value)) or any(
                    isinstance(x, ast.Call) and dotted(x.func) in ('nx.DiGraph', 'networkx.DiGraph') for x in ast.walk(n.value))
                chk.instance(W4, f'{f.qualname}: graph of `{unparse(src_g[0].value)}` taken over as an independent copy: {copied}')
                if not copied:
                    chk.violation(W4, f.module.rel, f.qualname, unparse(n)[:90],
                                  'the new object shares the graph of the object it was made from',
                                  line=n.lineno,
                                  witness='Workflow(wb), then wb.add_task(...): the workflow created earlier gets the new task '
                                          'and returns its result')
            if not allowed:
                chk.violation(W4, f.module.rel, f.qualname, unparse(n), 'the task graph is written outside the builder',
                              line=n.lineno, witness='an existing Workflow value changes after it was created')
    rt = wb.methods.get('replace_task')
    if rt is None:
        raise AnalysisError('WorkflowBuilder.replace_task not found')
    rl = [c for c in calls_in(rt.node) if dotted(c.func) in ('nx.relabel_nodes', 'networkx.relabel_nodes')]
    chk.instance(W4, f'replace_task: {[unparse(c) for c in rl]}')
    if not rl:
        # any other implementation must keep edges: flag remove_node/add_node
        if any(isinstance(c.func, ast.Attribute) and c.func.attr in ('remove_node',) for c in calls_in(rt.node)):
            chk.violation(W4, rel, rt.qualname, 'remove_node', 'replace_task drops the edges of the replaced task',
                          line=rt.node.lineno, witness='the new task is disconnected: it runs without its predecessors')
    for c in rl:
        inplace = any(kw.arg == 'copy' and isinstance(kw.value, ast.Constant) and kw.value.value is False
                      for kw in c.keywords)
        assigned = any(isinstance(n, ast.Assign) and n.value is c and unparse(n.targets[0]) == 'self._g'
                       for n in walk_no_nested(rt.node))
        if inplace:
            chk.violation(W4, rel, rt.qualname, unparse(c),
                          'in-place relabel moves the replaced task behind its siblings in the node order and in the '
                          'predecessor order of its successors', line=c.lineno,
                          witness='join(a, b) where only a takes the context: after insert_context the join receives '
                                  '(B, A) instead of (A, B)')
        elif not assigned:
            chk.violation(W4, rel, rt.qualname, unparse(c), 'the relabelled graph is discarded', line=c.lineno,
                          witness='replace_task has no effect: the context is never inserted')
    iw = wb.methods.get('insert_workflow')
    if iw is None:
        raise AnalysisError('WorkflowBuilder.insert_workflow not found')
    zips = [c for c in calls_in(iw.node) if dotted(c.func) == 'zip']
    outs = [n for n in walk_no_nested(iw.node) if isinstance(n, ast.Assign) and isinstance(n.targets[0], ast.Name)
            and n.targets[0].id == 'output_tasks']
    chk.instance(W4, f'insert_workflow: output_tasks = {[unparse(n.value) for n in outs]}; zip {[unparse(z) for z in zips]}')
    for n in outs:
        # anything that keeps the caller's order is fine (the list itself, a copy, a one-element list, a conditional choice
        # between those); re-ordering or filtering is not
        reorders = any(isinstance(x, ast.Call) and (dotted(x.func) or '').split('.')[-1] in ('sorted', 'reversed', 'set', 'frozenset',
                                                                                             'filter', 'shuffle') for x in ast.walk(n.value)) \
            or any(isinstance(x, (ast.ListComp, ast.GeneratorExp, ast.SetComp)) and any(g_.ifs for g_ in x.generators)
                   for x in ast.walk(n.value)) \
            or any(isinstance(x, ast.Subscript) and isinstance(x.slice, ast.Slice) and x.slice.step is not None
                   for x in ast.walk(n.value))
        if reorders:
            chk.violation(W4, rel, iw.qualname, unparse(n),
                          'the explicit predecessor list is re-ordered / filtered before the positional pairing with the '
                          'inputs of the inserted workflow', line=n.lineno,
                          witness='insert_workflow(other, predecessors=[b, a]) with two inputs: the i-th listed '
                                  'predecessor is not connected to the i-th input task')
    if not zips or not any({'input_tasks', 'output_tasks'} <= names(z) for z in zips):
        chk.violation(W4, rel, iw.qualname, 'N:N pairing', 'inputs and predecessors are not paired positionally',
                      line=iw.node.lineno, witness='N:N insertion creates other edges than declared')

    # ------------------------------------------------------------------ W5 arity
    n_sites = 0
    for f in repo.all_funcs():
        for c in calls_in(f.node):
            if dotted(c.func) not in ('Task', 'Task.create') or len(c.args) < 2:
                continue
            if any(isinstance(a, ast.Starred) for a in c.args):
                continue
            fn = c.args[1]
            if not isinstance(fn, (ast.Name, ast.Attribute)):
                continue
            r = repo.resolve_call(f, ast.Call(func=fn, args=[], keywords=[]))
            if not r or r[0] != 'func':
                continue
            callee = r[1]
            a = callee.node.args
            if a.vararg is not None:
                continue
            pos = [p.arg for p in a.posonlyargs + a.args]
            if callee.cls is not None and not callee.is_static() and pos and pos[0] in ('self', 'cls'):
                pos = pos[1:]
            n_static = len(c.args) - 2
            ctx = 1 if pos and pos[0] == 'context' else 0
            n_sites += 1
            chk.instance(W5, f'{f.qualname}: Task({unparse(c.args[0])[:20]}, {unparse(fn)}, {n_static} static) -> '
                             f'{len(pos)} positional')
            if n_static + ctx > len(pos):
                chk.violation(W5, f.module.rel, f.qualname, unparse(c)[:120],
                              f'{unparse(fn)} takes {len(pos)} positional parameters but gets {n_static} static inputs'
                              + (' plus the context' if ctx else ''), line=c.lineno,
                              witness='executing the workflow raises TypeError in that task')
            lits = [a_ for a_ in c.args[2:] if isinstance(a_, ast.Constant) and a_.value == 'results']
            for l_ in lits:
                chk.violation(W5, f.module.rel, f.qualname, unparse(c)[:120],
                              'the static input "results" is interpreted by dask as the key of the sink task',
                              line=c.lineno, witness='the task receives the workflow result (or a cycle error)')
    run_more(chk, repo)
    run_w8(chk, repo)
    run_w9(chk, repo)
    run_w10_w11(chk, repo)
    run_w12(chk, repo)


def run_more(chk, repo):
    from sa.cfg import CFG
    W6 = chk.rule('W6', 'call_workflow gives the sink its unique key before the graph is optimised (fused task names are derived '
                        'from the keys)', floor=1)
    W7 = chk.rule('W7', 'WorkflowBuilder.add_task adds the task as a node on every path (also for an empty predecessor list)',
                  floor=1)
    cm = repo.module('pharmpy.workflows.dispatchers.local_dask.call')
    f = cm.functions.get('call_workflow')
    if f is None:
        raise AnalysisError('call_workflow not found')
    cfg = CFG(f.node)
    renames = [n for n in cfg.nodes.values() if n.kind == 'stmt' and isinstance(n.ast, ast.Assign)
               and isinstance(n.ast.targets[0], ast.Subscript) and isinstance(n.ast.value, ast.Call)
               and isinstance(n.ast.value.func, ast.Attribute) and n.ast.value.func.attr == 'pop'
               and n.ast.value.args and isinstance(n.ast.value.args[0], ast.Constant) and n.ast.value.args[0].value == 'results']
    opts = [n for n in cfg.nodes.values() if n.kind == 'stmt' and n.ast is not None
            and any(isinstance(c, ast.Call) and (dotted(c.func) or '').startswith('optimize_task_graph') for c in ast.walk(n.ast))]
    if not renames or not opts:
        raise AnalysisError(f'W6: rename of the sink ({len(renames)}) or optimisation call ({len(opts)}) not found')
    for o in opts:
        oc = next(c for c in ast.walk(o.ast) if isinstance(c, ast.Call) and (dotted(c.func) or '').startswith('optimize_task_graph'))
        graph_arg = unparse(oc.args[-1])
        ok = any(unparse(r.ast.targets[0].value) == graph_arg and cfg.dominates(r.id, o.id) for r in renames)
        chk.instance(W6, f'`{renames[0].text()[:60]}` dominates `{o.text()[:60]}` and renames the graph that is optimised: {ok}')
        if not ok:
            chk.violation(W6, cm.rel, 'call_workflow', f'{o.text()[:70]} ... {renames[0].text()[:70]}',
                          'the graph is optimised while its sink is still called `results`: fused tasks of two sub-workflows '
                          'with the same task names get the same key, and the scheduler reuses the first computation for the '
                          'second', line=o.line,
                          witness='three parallel callers of call_workflow with the same linear sub-workflow and different static '
                                  'inputs: all get the first caller\'s result')
    wm = repo.module('pharmpy.workflows.workflow')
    wb = wm.classes.get('WorkflowBuilder')
    at = wb.methods.get('add_task') if wb else None
    if at is None:
        raise AnalysisError('WorkflowBuilder.add_task not found')
    cfg = CFG(at.node)
    tparam = at.params[1] if at.params and at.params[0] == 'self' else at.params[0]
    adds = {n.id for n in cfg.nodes.values() if n.kind == 'stmt' and n.ast is not None
            and any(isinstance(c, ast.Call) and isinstance(c.func, ast.Attribute) and c.func.attr == 'add_node'
                    and c.args and unparse(c.args[0]) == tparam for c in ast.walk(n.ast))}
    ok = bool(adds) and cfg.exit not in cfg.reachable(cfg.entry, avoid=adds, labels_excluded=('exc', 'fexc'))
    chk.instance(W7, f'add_task: every path passes add_node({tparam}): {ok}')
    if not ok:
        p = cfg.path(cfg.entry, cfg.exit, avoid=adds, labels_excluded=('exc', 'fexc'))
        chk.violation(W7, wm.rel, at.qualname, f'path without add_node({tparam})',
                      'a task added with an empty predecessor list is not entered as a node: it appears later (when first used '
                      'as a predecessor) at another position, or never', line=at.node.lineno, path=cfg.describe(p or [])[-6:],
                      witness='base[], alt[], refit[alt], compare[base, refit]: compare receives (refit, base)')


def run_w8(chk, repo):
    W8 = chk.rule('W8', 'dask keys carry a process-wide unique component (sub-workflows are submitted to the same scheduler '
                        'and only their sink is renamed)', floor=1)
    wm = repo.module('pharmpy.workflows.workflow')
    wf = wm.classes.get('Workflow')
    f = wf.methods.get('as_dask_dict') if wf else None
    if f is not None:
        f = repo.follow_delegation(f)
    cm = repo.module('pharmpy.workflows.dispatchers.local_dask.call')
    cw = cm.functions.get('call_workflow')
    if f is None or cw is None:
        raise AnalysisError('as_dask_dict / call_workflow not found')
    # the contract is needed as long as call_workflow hands the sub-graph to a shared client
    shared = any(dotted(c.func) in ('get_client',) for c in calls_in(cw.node))
    chk.instance(W8, f'call_workflow submits sub-workflows to the running client: {shared}')
    if not shared:
        return
    keys = [n for n in walk_no_nested(f.node) if isinstance(n, ast.Assign) and isinstance(n.targets[0], ast.Subscript)
            and isinstance(n.value, ast.JoinedStr)]
    if not keys:
        raise AnalysisError('W8: key construction of as_dask_dict not recognised')
    for k in keys:
        uniq = any(isinstance(c, ast.Call) and (dotted(c.func) or '') in ('uuid.uuid4', 'uuid4', 'uuid.uuid1', 'secrets.token_hex')
                   for c in ast.walk(k.value))
        chk.instance(W8, f'as_dask_dict: `{unparse(k)[:70]}` contains a uuid: {uniq}')
        if not uniq:
            chk.violation(W8, wm.rel, f.qualname, unparse(k)[:100],
                          'keys are unique inside one workflow only; a sub-workflow task with the same name and position as a '
                          'task of the caller resolves to the caller\'s stored result', line=k.lineno,
                          witness='distributed dispatcher, a task that calls context.call_workflow with a sub-workflow whose '
                                  'task names and indices coincide with the outer workflow: the sub tasks are never run')


def run_w9(chk, repo):
    """composition keeps the left operand's tasks first (the order in which tasks entered the workflow decides the order of
    predecessor results)"""
    W9 = chk.rule('W9', 'workflow composition: nx.compose(<own graph>, <other graph>) - the receiver\'s tasks enter first', floor=1)
    wm = repo.module(WF)
    n = 0
    for c_ in dict.values(wm.classes):
        for name, f in c_.methods.items():
            other = [p for p in f.params if p != 'self']
            for c in calls_in(f.node):
                if (dotted(c.func) or '').endswith('compose') and len(c.args) == 2:
                    a0, a1 = unparse(c.args[0]), unparse(c.args[1])
                    if not (a0.startswith('self') or a1.startswith('self')):
                        continue
                    n += 1
                    ok = a0.startswith('self') and not a1.startswith('self')
                    chk.instance(W9, f'{c_.name}.{name}: {unparse(c)}: own graph first {ok}')
                    if not ok:
                        chk.violation(W9, wm.rel, f.qualname, unparse(c),
                                      'the other workflow\'s tasks enter the composed graph first: a later task that joins both '
                                      'halves receives its predecessor results in the other order', line=c.lineno,
                                      witness='(a + b) followed by a non-commutative join task: it gets q(B)|p(A) instead of '
                                              'p(A)|q(B)')
            del other
            # merging in place: the other graph's nodes must enter (in their own order) before its edges do, otherwise the
            # nodes enter in edge-traversal order and isolated tasks last
            ecalls = [c for c in calls_in(f.node) if isinstance(c.func, ast.Attribute) and c.func.attr == 'add_edges_from'
                      and c.args and unparse(c.args[0]).endswith(('.edges', '.edges()'))]
            if ecalls:
                fcfg = CFG(f.node)
                for c in ecalls:
                    recv = unparse(c.func.value)
                    src = unparse(c.args[0]).rsplit('.edges', 1)[0]
                    n += 1
                    cn = next((nd for nd in fcfg.nodes.values() if nd.ast is not None and nd.kind == 'stmt'
                               and any(x is c for x in ast.walk(nd.ast))), None)
                    ncalls = [nd for nd in fcfg.nodes.values() if nd.ast is not None and nd.kind == 'stmt' and any(
                        isinstance(x, ast.Call) and isinstance(x.func, ast.Attribute) and x.func.attr == 'add_nodes_from'
                        and unparse(x.func.value) == recv and x.args
                        and unparse(x.args[0]) in (src, src + '.nodes', src + '.nodes()') for x in ast.walk(nd.ast))]
                    ok = cn is not None and any(fcfg.dominates(nd.id, cn.id) and nd.id != cn.id for nd in ncalls)
                    chk.instance(W9, f'{c_.name}.{name}: {unparse(c)[:60]}: nodes of {src} added before: {ok}')
                    if not ok:
                        chk.violation(W9, wm.rel, f.qualname, unparse(c)[:100],
                                      f'the edges of {src} are added to {recv} before its nodes: the tasks enter in the order '
                                      f'the edges visit them (isolated tasks last), not in the order they were declared, and '
                                      f'predecessor results follow that order', line=c.lineno,
                                      witness='insert a workflow x, y, z(x), w(y, z) with a non-commutative w: it is called as '
                                              'w(z, y)')
    if n < 1:
        raise AnalysisError('W9: no graph composition found in workflow.py')


def run_w10_w11(chk, repo):
    """W10: a Task stores the static inputs it was given as they are (a single input that is a tuple stays one input) and
    replace() hands them back star-expanded; W11: insert_workflow pairs N inputs with N outputs only when the counts are equal
    and refuses N:M"""
    from sa import reach, guards as G_
    W10 = chk.rule('W10', 'Task: __init__ stores *task_input unchanged; replace() re-creates the task with the inputs '
                          'star-expanded', floor=2)
    tm = repo.module('pharmpy.workflows.task')
    tc = tm.classes.get('Task')
    init = tc.methods.get('__init__') if tc else None
    rep = tc.methods.get('replace') if tc else None
    if init is None or rep is None:
        raise AnalysisError('Task.__init__ / Task.replace not found')
    va = init.node.args.vararg.arg if init.node.args.vararg else None
    if va is None:
        raise AnalysisError('W10: Task.__init__ has no *task_input')
    rebinds = [a for a in ast.walk(init.node) if isinstance(a, (ast.Assign, ast.AugAssign, ast.AnnAssign))
               and any(isinstance(t, ast.Name) and t.id == va for t in ast.walk(
                   a.targets[0] if isinstance(a, ast.Assign) else a.target))]
    stores = [a for a in ast.walk(init.node) if isinstance(a, (ast.Assign, ast.AnnAssign))
              and '_task_input' in unparse(a.targets[0] if isinstance(a, ast.Assign) else a.target)]
    ok = bool(stores) and not rebinds and all(unparse(a.value) in (va, f'tuple({va})') for a in stores)
    chk.instance(W10, f'Task.__init__: self._task_input = {[unparse(a.value) for a in stores]}, *{va} rebound: {bool(rebinds)}: {ok}')
    if not ok:
        chk.violation(W10, tm.rel, init.qualname, unparse((rebinds or stores or [init.node])[0])[:80],
                      'the static inputs are reinterpreted (a lone tuple is spread): the function is called with other arguments '
                      'than the task was created with', line=(rebinds or stores or [init.node])[0].lineno,
                      witness="Task('bounds', f, (0.5, 2.0)): f is called as f(0.5, 2.0) instead of f((0.5, 2.0))")
    creates = [c for c in calls_in(rep.node) if (dotted(c.func) or '').split('.')[-1] in ('create', 'Task')
               and (dotted(c.func) or '').startswith(('Task', 'cls', 'type(self)', 'self.__class__'))]
    if not creates:
        raise AnalysisError('W10: Task.replace does not create a Task')
    for c in creates:
        starred = any(isinstance(a, ast.Starred) for a in c.args)
        chk.instance(W10, f'Task.replace: {unparse(c)[:60]} passes the inputs star-expanded: {starred}')
        if not starred:
            chk.violation(W10, tm.rel, rep.qualname, unparse(c)[:80],
                          'the inputs are handed over as one tuple argument: the new task has a single static input (the tuple)',
                          line=c.lineno, witness='task.replace(name="x") of a task with two static inputs')
    W11 = chk.rule('W11', 'WorkflowBuilder.insert_workflow: inputs and outputs are paired one to one only under a test that '
                          'their numbers are equal; the remaining case raises', floor=1)
    wm = repo.module('pharmpy.workflows.workflow')
    wb = wm.classes.get('WorkflowBuilder')
    iw = wb.methods.get('insert_workflow') if wb else None
    if iw is None:
        raise AnalysisError('WorkflowBuilder.insert_workflow not found')
    cfg = CFG(iw.node)
    # the one-to-one pairing: a zip(inputs, outputs) in a loop header or in the value of a statement
    zips = []
    for n in cfg.nodes.values():
        root = n.ast.iter if n.kind == 'for' else n.ast if n.kind == 'stmt' else None
        if root is None:
            continue
        for c in ast.walk(root):
            if isinstance(c, ast.Call) and dotted(c.func) == 'zip' and len(c.args) == 2:
                zips.append((n, c))
    if not zips:
        raise AnalysisError('W11: pairing zip(inputs, outputs) not found in insert_workflow')
    for z, zc in zips:
        a_, b_ = (unparse(x) for x in zc.args)

        def same_len(e, a_=a_, b_=b_, at=z.id):
            if isinstance(e, ast.Compare) and len(e.ops) == 1 and isinstance(e.ops[0], (ast.Eq, ast.NotEq)):
                want = {f'len({a_})', f'len({b_})'}
                raw = {unparse(e.left), unparse(e.comparators[0])}
                # the lengths may be held in locals (n_in, n_out = len(a), len(b)): one level of resolution
                res = {unparse(reach.expand_expr(cfg, at, x, depth=1)) if isinstance(x, ast.Name) else unparse(x)
                       for x in (e.left, e.comparators[0])}
                if raw == want or res == want:
                    return isinstance(e.ops[0], ast.Eq)
            return None
        ok = bool(G_.guarded(cfg, z.id, same_len))
        chk.instance(W11, f'insert_workflow: `zip({a_}, {b_})` only when len({a_}) == len({b_}): {ok}')
        if not ok:
            chk.violation(W11, wm.rel, iw.qualname, f'zip({a_}, {b_}) without a length test',
                          'an N:M insertion is accepted and silently truncated to min(N, M) pairs', line=z.line,
                          witness='insert a workflow with 3 inputs after 2 tasks: one input runs without upstream result')
    raises = [r for r in ast.walk(iw.node) if isinstance(r, ast.Raise)]
    chk.instance(W11, f'insert_workflow: the unsupported case raises: {bool(raises)}')
    if not raises:
        chk.violation(W11, wm.rel, iw.qualname, 'no raise for N:M', 'an unsupported N:M insertion is not refused',
                      line=iw.node.lineno, witness='insert a workflow with 3 inputs after 2 tasks')


def run_w12(chk, repo):
    """a Task is a node of the workflow graph: two tasks that were built alike are two nodes. That is the case as long as
    tasks compare by identity, i.e. neither Task nor a base class inside the package defines __eq__ / __hash__"""
    W12 = chk.rule('W12', 'Task is compared by identity (no __eq__ / __hash__ in Task or its bases): tasks built alike stay '
                          'separate nodes of the graph', floor=1)
    tm = repo.module('pharmpy.workflows.task')
    tc = tm.classes.get('Task')
    if tc is None:
        raise AnalysisError('W12: class Task not found')
    for k in repo.mro(tc):
        defs = [m for m in ('__eq__', '__hash__') if dict.__contains__(k.methods, m)]
        # a class-level `__eq__ = ...` / dataclass(eq=True) counts as well
        assigned = [t.id for s_ in k.node.body if isinstance(s_, ast.Assign) for t in s_.targets
                    if isinstance(t, ast.Name) and t.id in ('__eq__', '__hash__')]
        deco = [unparse(d) for d in k.node.decorator_list if 'dataclass' in unparse(d) and 'eq=False' not in unparse(d)]
        chk.instance(W12, f'{k.name}: defines {defs + assigned + deco or "no comparison"}')
        for what in defs + assigned + deco:
            node = k.methods[what].node if what in defs else k.node
            chk.violation(W12, k.module.rel, f'{k.name}.{what}' if what in defs else k.name, what,
                          'tasks that compare equal are one node of the networkx graph: add_task / insert_workflow / compose '
                          'silently merge replicate tasks built in a loop', line=node.lineno,
                          witness='wb.add_task(Task("rep", f, 20)) three times plus a collector: the builder holds one task, '
                                  'the result is (20,) instead of (20, 20, 20)')
