"""C15 Path locks: structural clauses L1-L7 on pharmpy/internals/fs/lock.py (see DESIGN.md)."""
from __future__ import annotations

import ast

import networkx as nx

from sa.cfg import CFG
from sa.locks import LockFlow, class_guarded_fields, class_lock_attrs, self_attr, NORMAL
from sa.report import AnalysisError
from sa.srcmodel import unparse, walk_no_nested, dotted

MOD = 'pharmpy.internals.fs.lock'


def is_contextmanager(f):
    return any(d.split('.')[-1] == 'contextmanager' for d in f.decorators())


def names_in(node):
    return {n.id for n in ast.walk(node) if isinstance(n, ast.Name)}



def cur_name(repo, old, module='pharmpy.internals.fs.lock'):
    """the present name of a private function of the confirmed tree (it may have been renamed: sa/renames.py)"""
    f = repo.module(module).functions.get(old)
    return f.name if f is not None else old

def run(chk, repo, tier):
    m = repo.module(MOD)
    rel = m.rel
    chk.explanation = (
        'Decides the structural clauses L1-L7 of the path-lock implementation on every path of the CFG of '
        'every lock method: acquire/release pairing on all exits (incl. exception thrown at yield), lockset of '
        'every access to the bookkeeping fields, counter inc/dec pairing, wait-in-loop and notify completeness '
        '(lost wake-up), descriptor open/close ownership, single-yield protocol, acyclic lock order. NOT decided: '
        'the full safety/liveness statement over interleavings of thread x process x fcntl (model checking), '
        'Windows branch semantics.')
    L1 = chk.rule('L1', 'every acquire of a class lock is released on all exits of the method (normal, '
                        'exceptional, exception thrown at yield)', floor=5)
    L2 = chk.rule('L2', 'every access to a bookkeeping field (and every process-level lock/unlock call) happens '
                        'with the owning lock must-held', floor=20)
    L3 = chk.rule('L3', 'every counter increment is undone on all exits and no decrement happens on a path '
                        'without the matching increment (flag-sensitive)', floor=3)
    L4 = chk.rule('L4', 'mutex acquisition order graph is acyclic', floor=3)
    L5a = chk.rule('L5a', 'Condition.wait() only directly inside a while loop re-testing a predicate, with the '
                          'condition held', floor=1)
    L5b = chk.rule('L5b', 'notify completeness: every removal of a holder read by a waiter-local wait '
                          'predicate is followed by notify_all on all paths before the condition is released, '
                          'unless the remover held the condition continuously since before its own increment',
                   floor=2)
    L6 = chk.rule('L6', 'os.open/os.close of the lock file only through the pool factory/destructor; destructor '
                        'runs under the pool lock and only when refcount == 1', floor=4)
    L7 = chk.rule('L7', '@contextmanager generators yield exactly once on every non-raising path and never '
                        'yield again after the first yield', floor=8)

    L8 = chk.rule('L8', 'bookkeeping containers are per-instance: created in __init__, never a class-level default',
                  floor=4)
    L9 = chk.rule('L9', 'the process-level (fcntl) unlock is reachable only when every holder table is empty '
                        '(path condition over the emptiness flags); an upgrade never unlocks first', floor=1)

    classes, scope_funcs = repo.scope(m)
    flows = {}
    wait_sites = []      # (cls, func, while node, lockattr)
    field_owner = {}     # (cls, field) -> lock
    for c in classes:
        locks = class_lock_attrs(c)
        if not locks:
            continue
        fields = class_guarded_fields(c, locks)
        if len(locks) != 1:
            raise AnalysisError(f'{c.fq}: expected exactly one lock attribute, found {sorted(locks)}')
        lock = next(iter(locks))
        for fld in fields:
            field_owner[(c.name, fld)] = lock
        for name, f in c.methods.items():
            if name == '__init__':
                continue
            uses = any(self_attr(n) in (locks | fields) for n in walk_no_nested(f.node))
            if not uses:
                continue
            lf = LockFlow(f.node, locks, fields)
            flows[f.fq] = lf
            cfg = lf.cfg
            # ---- L1
            acquires = [n for n in cfg.nodes.values()
                        if n.ast is not None and any(
                            isinstance(x, ast.Call) and isinstance(x.func, ast.Attribute)
                            and x.func.attr == 'acquire' and self_attr(x.func.value) in locks
                            for x in [n.ast, *walk_no_nested(n.ast)] if not isinstance(n.ast, (ast.FunctionDef,)))
                        or (n.kind == 'with_enter' and self_attr(n.ast) in locks)]
            for ex, exname in ((cfg.exit, 'normal exit'), (cfg.raise_exit, 'exceptional exit')):
                leaked = {fact[1] for st in lf.at(ex) for fact in st if fact[0] == 'held'}
                chk.instance(L1, f'{f.qualname}: {len(acquires)} acquire sites, {exname}')
                for lk in sorted(leaked):
                    chk.violation(L1, rel, f.qualname, f'self.{lk} held at {exname}',
                                  f'lock self.{lk} may still be held when {f.qualname} leaves through its {exname}',
                                  witness='a caller whose body (or a refused/raising request) leaves through that '
                                          'exit keeps the lock forever: the next request on the same path hangs',
                                  line=f.node.lineno)
            # ---- L3
            # counter updates as the flow analysis resolved them (self.F[k] += 1, or through a local alias of self.F)
            incs = [cfg.nodes[i] for i, cu in lf.counter_nodes.items() if cu[0] == 'inc' and cu[1] in fields]
            decs = [cfg.nodes[i] for i, cu in lf.counter_nodes.items() if cu[0] == 'dec' and cu[1] in fields]
            if incs or decs:
                chk.instance(L3, f'{f.qualname}: {len({unparse(n.ast) for n in incs})} increments / '
                                 f'{len({unparse(n.ast) for n in decs})} decrements')
                for ex, exname in ((cfg.exit, 'normal exit'), (cfg.raise_exit, 'exceptional exit')):
                    open_ = {fact for st in lf.at(ex) for fact in st if fact[0] == 'inc'}
                    for fact in sorted(open_):
                        chk.violation(L3, rel, f.qualname, f'self.{fact[1]}[{fact[2]}] += 1 not undone at {exname}',
                                      f'the hold counted in self.{fact[1]}[{fact[2]}] is not decremented on a path to '
                                      f'the {exname}',
                                      witness='after the with-body finishes (or raises) the thread is still '
                                              'counted as a holder: later exclusive requests wait forever / the '
                                              'fcntl lock is never released',
                                      line=f.node.lineno)
                for node, st in lf.bad_dec:
                    chk.violation(L3, rel, f.qualname, unparse(node.ast) + ' without matching increment',
                                  'a path reaches this decrement without having passed the increment',
                                  witness='a refused (non-blocking / non-reentrant) request decrements a count it '
                                          'never incremented and corrupts the holder bookkeeping',
                                  line=node.line)
                # the zero entry must be deleted (emptiness tests rely on it)
                for d in decs:
                    tgt = unparse(d.ast.target)
                    ok = any(isinstance(n.ast, ast.Delete) and any(unparse(t) == tgt for t in n.ast.targets)
                             and cfg.dominates(d.id, n.id) for n in cfg.nodes.values())
                    if not ok:
                        # `if c[k] > 1: c[k] -= 1  else: del c[k]`: the decrement never reaches zero, the other branch deletes
                        for t_ in [n for n in cfg.nodes.values() if n.kind == 'test']:
                            c_ = t_.ast
                            if not (isinstance(c_, ast.Compare) and len(c_.ops) == 1 and unparse(c_.left) == tgt
                                    and isinstance(c_.comparators[0], ast.Constant)):
                                continue
                            v_ = c_.comparators[0].value
                            above_one = {ast.Gt: v_ == 1, ast.GtE: v_ == 2, ast.NotEq: v_ == 1}.get(type(c_.ops[0]), False)
                            at_one = {ast.Eq: v_ == 1, ast.LtE: v_ == 1, ast.Lt: v_ == 2}.get(type(c_.ops[0]), False)
                            for lab_dec, lab_del, cond in (('true', 'false', above_one), ('false', 'true', at_one)):
                                if cond and cfg.edge_dominates(t_.id, lab_dec, d.id) and any(
                                        isinstance(n.ast, ast.Delete) and any(unparse(t) == tgt for t in n.ast.targets)
                                        and cfg.edge_dominates(t_.id, lab_del, n.id) for n in cfg.nodes.values()):
                                    ok = True
                    if not ok:
                        chk.violation(L3, rel, f.qualname, f'{unparse(d.ast)} without `del {tgt}` at zero',
                                      'zero-count entries are not removed although bool(counter) is used as '
                                      '"nobody holds"', line=d.line,
                                      witness='after one lock/unlock the counter is {tid: 0}, truthy: the process '
                                              'lock is never released / exclusive waiters never proceed')
            # ---- L2
            for n in cfg.nodes.values():
                if n.ast is None or n.kind in ('with_exit',):
                    continue
                expr = n.ast
                if n.kind == 'for':
                    expr = n.ast.iter
                if isinstance(expr, (ast.FunctionDef, ast.ClassDef)):
                    continue
                touched = lf.fields_touched(n.id, expr) if isinstance(expr, ast.AST) else set()
                calls = {dotted(x.func) for x in [expr, *walk_no_nested(expr)] if isinstance(x, ast.Call)}
                if calls & {cur_name(repo, '_process_level_lock'), cur_name(repo, '_process_level_unlock')}:
                    touched.add('<process-level lock call>')
                if not touched or not lf.at(n.id):
                    continue
                for fld in sorted(touched):
                    chk.instance(L2, f'{f.qualname}: {n.text()[:80]} under self.{lock}')
                    if not lf.must_hold(n.id, lock):
                        chk.violation(L2, rel, f.qualname, f'{n.text()} [{fld}]',
                                      f'self.{fld} is accessed on a path where self.{lock} is not held',
                                      witness='two threads locking the same path interleave inside this '
                                              'read-modify-write: a holder count is lost or a stale emptiness test '
                                              'decides lock/unlock/upgrade',
                                      line=n.line)
            # ---- L5a: waits
            for n in cfg.nodes.values():
                if n.ast is None or not isinstance(n.ast, ast.Expr):
                    continue
                v = n.ast.value
                if isinstance(v, ast.Call) and isinstance(v.func, ast.Attribute) and v.func.attr == 'wait' \
                        and self_attr(v.func.value) in locks:
                    lk = self_attr(v.func.value)
                    loop = None
                    for w in walk_no_nested(f.node):
                        if isinstance(w, ast.While) and n.ast in w.body:
                            loop = w
                    chk.instance(L5a, f'{f.qualname}: {n.text()} in '
                                      f'{"while " + unparse(loop.test) if loop else "no loop"}')
                    if loop is None or isinstance(loop.test, ast.Constant):
                        chk.violation(L5a, rel, f.qualname, n.text(),
                                      'Condition.wait() is not directly inside a while loop that re-tests the '
                                      'predicate', line=n.line,
                                      witness='a spurious or stale wake-up lets the exclusive requester in while '
                                              'another thread still holds the lock')
                    else:
                        wait_sites.append((c, f, loop, lk))
                    if not lf.must_hold(n.id, lk):
                        chk.violation(L5a, rel, f.qualname, n.text() + ' without condition held',
                                      'wait() on a path where the condition is not acquired', line=n.line,
                                      witness='RuntimeError: cannot wait on un-acquired lock')
                # Condition.wait_for(predicate) is `while not predicate(): wait()`: the loop is built in, the predicate is the
                # negated callable
                if isinstance(v, ast.Call) and isinstance(v.func, ast.Attribute) and v.func.attr == 'wait_for' \
                        and self_attr(v.func.value) in locks and v.args:
                    lk = self_attr(v.func.value)
                    from sa import reach as _reach
                    pred_fn = v.args[0]
                    if isinstance(pred_fn, ast.Name):
                        loc_ = _reach.local_callables(f.node)
                        pred_fn = loc_.get(pred_fn.id, pred_fn)
                    body_ = None
                    if isinstance(pred_fn, ast.Lambda):
                        body_ = pred_fn.body
                    elif isinstance(pred_fn, ast.FunctionDef):
                        rets_ = [r.value for r in ast.walk(pred_fn) if isinstance(r, ast.Return) and r.value is not None]
                        body_ = rets_[0] if len(rets_) == 1 else None
                    if body_ is None:
                        raise AnalysisError(f'L5a: predicate of {n.text()} not resolved')
                    test_ = body_.operand if isinstance(body_, ast.UnaryOp) and isinstance(body_.op, ast.Not) \
                        else ast.UnaryOp(op=ast.Not(), operand=body_)
                    pseudo = ast.While(test=test_, body=[n.ast], orelse=[])
                    chk.instance(L5a, f'{f.qualname}: {n.text()} = while {unparse(test_)}: wait()')
                    wait_sites.append((c, f, pseudo, lk))
                    if not lf.must_hold(n.id, lk):
                        chk.violation(L5a, rel, f.qualname, n.text() + ' without condition held',
                                      'wait_for() on a path where the condition is not acquired', line=n.line,
                                      witness='RuntimeError: cannot wait on un-acquired lock')
    # ---- L5b: notify completeness
    for c, wf, loop, lk in wait_sites:
        locks = class_lock_attrs(c)
        fields = class_guarded_fields(c, locks)
        # the predicate may be a closure defined in the method (`def others_hold(): return bool(self.F - mine)`)
        from sa import reach
        pred = loop.test
        loc = reach.local_callables(wf.node)
        if isinstance(pred, ast.Call) and isinstance(pred.func, ast.Name) and pred.func.id in loc and not pred.args:
            body = loc[pred.func.id]
            rets = [r.value for r in ast.walk(body) if isinstance(r, ast.Return) and r.value is not None] \
                if not isinstance(body, ast.Lambda) else [body.body]
            if len(rets) == 1:
                pred = rets[0]
        pred_fields = {self_attr(x) for x in ast.walk(pred)} & fields
        waiter_local = bool(names_in(pred) - {'self', 'bool', 'len', 'any', 'all'})
        for name, f in c.methods.items():
            lf = flows.get(f.fq)
            if lf is None:
                continue
            cfg = lf.cfg
            removals = [n for n in cfg.nodes.values() if isinstance(n.ast, ast.Delete)
                        and any(isinstance(t, ast.Subscript) and lf.fields_touched(n.id, t.value) & pred_fields
                                for t in n.ast.targets)]
            removals += [n for n in cfg.nodes.values() if isinstance(n.ast, ast.Expr)
                         and isinstance(n.ast.value, ast.Call) and isinstance(n.ast.value.func, ast.Attribute)
                         and n.ast.value.func.attr in ('pop', 'clear', 'popitem')
                         and lf.fields_touched(n.id, n.ast.value.func.value) & pred_fields]
            if not removals:
                continue
            ys = lf.yields()
            continuous = bool(ys) and all(lf.must_hold(y, lk) for y in ys)
            notifies = {n.id for n in cfg.nodes.values() if isinstance(n.ast, ast.Expr)
                        and isinstance(n.ast.value, ast.Call) and isinstance(n.ast.value.func, ast.Attribute)
                        and n.ast.value.func.attr == 'notify_all' and self_attr(n.ast.value.func.value) == lk}
            releases = {n.id for n in cfg.nodes.values()
                        if (isinstance(n.ast, ast.Expr) and isinstance(n.ast.value, ast.Call)
                            and isinstance(n.ast.value.func, ast.Attribute) and n.ast.value.func.attr == 'release'
                            and self_attr(n.ast.value.func.value) == lk)
                        or (n.kind == 'with_exit' and self_attr(n.ast) == lk)} | {cfg.exit, cfg.raise_exit}
            for d in removals:
                # per removal: the yields that can come before it (a method that serves both modes has a yield per mode)
                ys_d = [y for y in ys if d.id in cfg.reachable(y, edge_ok=lf.edge_ok)]
                continuous = bool(ys_d) and all(lf.must_hold(y, lk) for y in ys_d)
                chk.instance(L5b, f'{f.qualname}: {d.text()} (holds condition continuously: {continuous}; '
                                  f'wait predicate `{unparse(loop.test)}` waiter-local: {waiter_local})')
                if continuous:
                    continue
                if not waiter_local:
                    # a guard equal to the negated wait predicate is sufficient; accept any notify_all
                    # reachable from the removal (advisory precision: not exercised on today's tree)
                    ok = bool(cfg.reachable(d.id) & notifies)
                else:
                    # flag-sensitive: a release is bad when some state arriving there still carries the removal
                    # (the fact is set at the removal and cleared by notify_all; flag tests prune infeasible paths)
                    reach_ = cfg.reachable(d.id, avoid=notifies, edge_ok=lf.edge_ok)
                    ok = not any(('removed', fld) in st_ for r in (reach_ & releases) for st_ in lf.at(r)
                                 for fld in pred_fields)
                if not ok:
                    bad = None
                    for r in sorted(releases):
                        p = cfg.path(d.id, r, avoid=notifies, edge_ok=lf.edge_ok)
                        if p:
                            bad = p
                            break
                    chk.violation(L5b, rel, f.qualname, d.text() + ' -> release without notify_all',
                                  f'a holder is removed from self.{"/".join(sorted(pred_fields))} but a path to the '
                                  f'release of self.{lk} skips notify_all, while the waiter in {wf.qualname} tests '
                                  f'`{unparse(loop.test)}` (depends on the waiting thread\'s own entry)',
                                  witness='thread A holds the lock shared (reentrant) and requests it exclusively: it '
                                          'waits for all OTHER holders; thread B, the last other shared holder, '
                                          'leaves: the table is not empty (A is in it), so nobody is notified and A '
                                          'waits forever (lost wake-up)',
                                  line=d.line, path=cfg.describe(bad) if bad else [])
    # ---- L6 descriptor lifetime
    pool_ctor_args = set()
    for n in ast.walk(m.tree):
        if isinstance(n, ast.Call) and dotted(n.func) == 'ThreadSafeKeyedRefPool':
            for a in n.args[2:4]:
                for x in ast.walk(a):
                    pool_ctor_args.add(id(x))
                # a named module-level function handed over as factory / destructor is the same as a lambda
                if isinstance(a, ast.Name) and a.id in m.functions and m.functions[a.id].cls is None:
                    for x in ast.walk(m.functions[a.id].node):
                        pool_ctor_args.add(id(x))
    n_oc = 0
    for n in ast.walk(m.tree):
        if isinstance(n, ast.Call) and dotted(n.func) in ('os.open', 'os.close', 'open', 'os.fdopen', 'os.dup',
                                                          'os.dup2'):
            n_oc += 1
            chk.instance(L6, f'{unparse(n)} inside pool factory/destructor: {id(n) in pool_ctor_args}')
            if id(n) not in pool_ctor_args:
                chk.violation(L6, rel, '<module>', unparse(n),
                              'file descriptor of a lock path opened/closed/duplicated outside the refcounted pool',
                              line=n.lineno,
                              witness='closing any descriptor of the file drops the process\'s fcntl lock held '
                                      'through the pooled descriptor by another thread')
    if n_oc < 2:
        raise AnalysisError('L6: os.open/os.close of the lock file not found in lock.py (anchor moved)')
    pool = m.classes.get('ThreadSafeKeyedRefPool')
    if pool is None or '__call__' not in pool.methods:
        raise AnalysisError('ThreadSafeKeyedRefPool.__call__ not found')
    pf = pool.methods['__call__']
    lf = flows.get(pf.fq) or LockFlow(pf.node, class_lock_attrs(pool))
    cfg = lf.cfg
    destr = [n for n in cfg.nodes.values() if n.ast is not None and not isinstance(n.ast, ast.FunctionDef)
             and any(isinstance(x, ast.Call) and self_attr(x.func) == '_destructor'
                     for x in [n.ast, *walk_no_nested(n.ast)]) and n.kind == 'stmt']
    dels = [n for n in cfg.nodes.values() if isinstance(n.ast, ast.Delete)]
    if not destr or not dels:
        raise AnalysisError('L6: destructor call / pool entry deletion not found in ThreadSafeKeyedRefPool.__call__')
    def _is_eq1(e):
        return isinstance(e, ast.Compare) and len(e.ops) == 1 and isinstance(e.ops[0], ast.Eq) \
            and any(isinstance(x, ast.Constant) and x.value == 1 for x in [e.left, *e.comparators])
    flag_defs = {}
    for n in walk_no_nested(pf.node):
        if isinstance(n, ast.Assign) and len(n.targets) == 1 and isinstance(n.targets[0], ast.Name):
            flag_defs.setdefault(n.targets[0].id, []).append(n.value)
    eq1_flags = {k for k, v in flag_defs.items() if len(v) == 1 and _is_eq1(v[0])}
    def _guards_last(e):
        if _is_eq1(e) or (isinstance(e, ast.Name) and e.id in eq1_flags):
            return True
        return isinstance(e, ast.BoolOp) and isinstance(e.op, ast.And) and any(_guards_last(v) for v in e.values)
    from sa import guards as G_

    def last_ref(e):
        # atom "the refcount is 1": `refcount == 1` / a flag bound to it asserts it, `refcount != 1` denies it
        if _is_eq1(e) or (isinstance(e, ast.Name) and e.id in eq1_flags):
            return True
        if isinstance(e, ast.Compare) and len(e.ops) == 1 and isinstance(e.ops[0], ast.NotEq) \
                and any(isinstance(x, ast.Constant) and x.value == 1 for x in [e.left, *e.comparators]):
            return False
        return None
    for n in destr + dels:
        chk.instance(L6, f'__call__: {n.text()} guarded by refcount == 1 under pool lock')
        if not lf.must_hold(n.id, '_lock'):
            chk.violation(L6, rel, pf.qualname, n.text() + ' outside pool lock',
                          'pool entry destroyed without the pool lock', line=n.line,
                          witness='a concurrent request for the same key observes/creates an entry while it is '
                                  'being closed')
        if not G_.guarded(cfg, n.id, last_ref):
            chk.violation(L6, rel, pf.qualname, n.text() + ' not guarded by refcount == 1',
                          'the pooled object is destroyed while other users may still reference it (or never)',
                          line=n.line,
                          witness='two threads lock the same path; the first to leave closes the shared '
                                  'descriptor: the other thread\'s fcntl lock is silently released')
    # refcount arithmetic: +1 before the yield, -1 after it
    ys = lf.yields()
    if len(ys) < 1:
        raise AnalysisError('pool __call__ has no yield')
    pre = post = None
    for n in cfg.nodes.values():
        if isinstance(n.ast, ast.Assign) and isinstance(n.ast.targets[0], ast.Subscript) \
                and self_attr(n.ast.targets[0].value) == '_refs':
            for x in ast.walk(n.ast.value):
                if isinstance(x, ast.BinOp) and isinstance(x.right, ast.Constant) and x.right.value == 1:
                    after = any(dict_in(lf, n.id))
                    if isinstance(x.op, ast.Add) and not after:
                        pre = n
                    if isinstance(x.op, ast.Sub) and after:
                        post = n
    chk.instance(L6, f'refcount +1 before yield: {pre.text() if pre else None}; -1 after: {post.text() if post else None}')
    if pre is None or post is None:
        chk.violation(L6, rel, pf.qualname, 'refcount +1 before yield / -1 after yield',
                      'reference counting of pooled objects is not symmetric around the yield', line=pf.node.lineno,
                      witness='nested or concurrent users of one path: the descriptor is closed too early or leaks')

    # the release also runs when the body of the with-statement raises (exception thrown in at the yield)
    rel_nodes = {n.id for n in cfg.nodes.values() if n.ast is not None and (
        (isinstance(n.ast, ast.Delete) and any(isinstance(t, ast.Subscript) and self_attr(t.value) == '_refs'
                                               for t in n.ast.targets))
        or (post is not None and n.ast is post.ast))}      # every copy of the finally suite
    for y in ys:
        exc_succ = [m for m in cfg.g.successors(y) if 'exc' in cfg.g[y][m]['labels']]
        # (exception edges out of lock operations / item accesses of the release block itself are not followed)
        leaked = any(cfg.raise_exit in cfg.reachable(m, avoid=rel_nodes, edge_ok=lf.edge_ok) or m == cfg.raise_exit
                     for m in exc_succ)
        chk.instance(L6, f'__call__: an exception thrown in at the yield passes the release of the reference: {not leaked}')
        if leaked and rel_nodes:
            chk.violation(L6, rel, pf.qualname, 'yield not protected by try/finally',
                          'when the body of the with-statement raises (a refused non-blocking request, a RecursiveDeadlockError, '
                          'an error in the caller) the reference count is never decremented and the descriptor never closed',
                          line=cfg.nodes[y].line,
                          witness='a non-blocking request refused once: the fd stays open; after the lock file is replaced this '
                                  'process locks the old inode and no longer excludes other processes')

    # ---- L8 per-instance containers
    for c in classes:
        locks = class_lock_attrs(c)
        if not locks:
            continue
        fields = class_guarded_fields(c, locks)
        init = c.methods.get('__init__')
        init_assigned = set()
        if init is not None:
            for n in walk_no_nested(init.node):
                if isinstance(n, (ast.Assign, ast.AnnAssign)):
                    for t in (n.targets if isinstance(n, ast.Assign) else [n.target]):
                        if self_attr(t):
                            init_assigned.add(self_attr(t))
        class_level = {}
        for n in c.node.body:
            if isinstance(n, ast.Assign):
                for t in n.targets:
                    if isinstance(t, ast.Name):
                        class_level[t.id] = n
            elif isinstance(n, ast.AnnAssign) and isinstance(n.target, ast.Name) and n.value is not None:
                class_level[n.target.id] = n
        for fld in sorted(fields | locks):
            chk.instance(L8, f'{c.name}.{fld}: assigned in __init__={fld in init_assigned}, '
                             f'class-level default={fld in class_level}')
            if fld in class_level or fld not in init_assigned:
                n = class_level.get(fld)
                chk.violation(L8, rel, c.name, unparse(n) if n is not None else f'self.{fld} never assigned in __init__',
                              f'{c.name}.{fld} is shared by all instances (class-level mutable default) instead of being '
                              f'created per instance in __init__', line=n.lineno if n is not None else c.node.lineno,
                              witness='lock two different paths at overlapping times in one process: holders of path A '
                                      'count as holders of path B (spurious WouldBlock / RecursiveDeadlock, or a writer '
                                      'on B waits for A\'s readers and is never notified)')
    # ---- L9 unlock only when nobody holds
    spl = m.classes.get('ShareableProcessLock')
    if spl is None or 'lock' not in spl.methods:
        raise AnalysisError('ShareableProcessLock.lock not found')
    lf = flows[spl.methods['lock'].fq]
    cfg = lf.cfg
    sfields = sorted(class_guarded_fields(spl, class_lock_attrs(spl)))
    unlocks = [n for n in cfg.nodes.values() if n.ast is not None and n.kind == 'stmt' and any(
        isinstance(x, ast.Call) and dotted(x.func) == cur_name(repo, '_process_level_unlock') for x in [n.ast, *walk_no_nested(n.ast)])]
    if not unlocks:
        raise AnalysisError('L9: no _process_level_unlock call in ShareableProcessLock.lock')
    assigns = [n for n in cfg.nodes.values() if isinstance(n.ast, ast.Assign) and len(n.ast.targets) == 1
               and isinstance(n.ast.targets[0], ast.Name)]

    def latest_def(name, at):
        doms = [a for a in assigns if a.ast.targets[0].id == name and cfg.dominates(a.id, at)]
        best = None
        for a in doms:
            if all(cfg.dominates(b.id, a.id) for b in doms):
                best = a
        return best

    def ev(e, env, at, depth=0):
        # three-valued: True / False / None (unknown)
        if isinstance(e, ast.Constant):
            return bool(e.value)
        if isinstance(e, ast.UnaryOp) and isinstance(e.op, ast.Not):
            v = ev(e.operand, env, at, depth)
            return None if v is None else (not v)
        if isinstance(e, ast.BoolOp):
            vals = [ev(v, env, at, depth) for v in e.values]
            if isinstance(e.op, ast.Or):
                return True if any(v is True for v in vals) else (None if any(v is None for v in vals) else False)
            return False if any(v is False for v in vals) else (None if any(v is None for v in vals) else True)
        if isinstance(e, ast.Call) and dotted(e.func) == 'bool' and e.args and self_attr(e.args[0]) in env:
            return env[self_attr(e.args[0])]
        if self_attr(e) in env:
            return env[self_attr(e)]
        if isinstance(e, ast.Name) and depth < 6:
            d = latest_def(e.id, at)
            if d is not None:
                return ev(d.ast.value, env, d.id, depth + 1)
            # unique reaching definition, also through tuple unpacking (`a, b = bool(self.F), bool(self.G)`)
            from sa import reach as reach_
            x = reach_.expand_expr(cfg, at, e)
            if not (isinstance(x, ast.Name) and x.id == e.id):
                return ev(x, env, at, depth + 6)
        return None
    import itertools
    for u in unlocks:
        doms = []
        for t in [n for n in cfg.nodes.values() if n.kind == 'test']:
            for lab in ('true', 'false'):
                if cfg.edge_dominates(t.id, lab, u.id):
                    doms.append((t, lab == 'true'))
        chk.instance(L9, f'{u.text()} under {[("" if pol else "not ") + t.text() for t, pol in doms]}')
        for combo in itertools.product([False, True], repeat=len(sfields)):
            if not any(combo):
                continue
            env = dict(zip(sfields, combo))
            feasible = all(ev(t.ast, env, t.id) in (None, pol) for t, pol in doms)
            if feasible:
                held = [f_ for f_, v in env.items() if v]
                chk.violation(L9, rel, spl.methods['lock'].qualname, u.text() + f' reachable while {held} non-empty',
                              'the fcntl lock of the process is released while some thread is still recorded as a holder',
                              line=u.line,
                              witness='thread P holds the path shared and requests it exclusively (reentrant) while '
                                      'another process also holds it shared: P drops its kernel lock before re-locking, '
                                      'the other process can then lock exclusively while P is still inside its shared '
                                      'section')
                break

    # ---- L7 single-yield protocol
    for f in scope_funcs:
        if not is_contextmanager(f):
            continue
        cfg = flows[f.fq].cfg if f.fq in flows else CFG(f.node)
        ys = [n.id for n in cfg.nodes.values() if n.kind == 'yield']
        chk.instance(L7, f'{f.qualname}: {len(ys)} yield node(s)')
        if not ys:
            chk.violation(L7, rel, f.qualname, 'no yield', '@contextmanager generator never yields', line=f.node.lineno)
            continue
        if cfg.exit in cfg.reachable(cfg.entry, avoid=ys, labels_excluded=('exc', 'fexc')):
            p = cfg.path(cfg.entry, cfg.exit, avoid=ys, labels_excluded=('exc', 'fexc'))
            chk.violation(L7, rel, f.qualname, 'normal return without yield',
                          'a non-raising path through the generator never yields', line=f.node.lineno,
                          path=cfg.describe(p) if p else [],
                          witness='`with` on this lock raises RuntimeError("generator didn\'t yield") instead of '
                                  'granting or refusing the request')
        for y in ys:
            again = set()
            for s in cfg.g.successors(y):
                again |= cfg.reachable(s) & set(ys)
            if again:
                chk.violation(L7, rel, f.qualname, 'second yield reachable after ' + cfg.nodes[y].text(),
                              'the generator can yield twice', line=cfg.nodes[y].line,
                              witness='contextlib raises RuntimeError("generator didn\'t stop")')

    # ---- L4 lock order graph
    _lock_order(chk, repo, m, L4, rel)
    run_l10_l11(chk, repo)
    run_l12(chk, repo)
    run_l13(chk, repo)
    run_l14(chk, repo)
    run_l15(chk, repo)


def dict_in(lf, nid):
    """for each state at nid: True when the yield has been passed"""
    return [(('yielded',) in st) for st in lf.at(nid)] or [False]


# --------------------------------------------------------------------------- L4
def _lock_order(chk, repo, m, L4, rel):
    """Mutex acquisition-order graph over lock.py, through nested @contextmanager generators.

    Abstract mutex names: '<Class>.<attr>' for class locks, '<global>.<attr>' for the pool instances.
    Each generator G gets a summary: pre (list of (mutex, held-before)), held-at-yield, post.
    """
    pools = {}   # global name -> factory class name or None
    for name, v in m.globals_.items():
        if isinstance(v, ast.Call) and dotted(v.func) == 'ThreadSafeKeyedRefPool':
            fac = v.args[2] if len(v.args) > 2 else None
            cls = None
            if isinstance(fac, ast.Name) and fac.id in m.classes:
                cls = fac.id
            elif isinstance(fac, ast.Lambda) and isinstance(fac.body, ast.Call) and dotted(fac.body.func) in m.classes:
                cls = dotted(fac.body.func)
            pools[name] = cls
    if len(pools) < 3:
        raise AnalysisError(f'L4: expected 3 ThreadSafeKeyedRefPool instances, found {sorted(pools)}')
    memo = {}
    edges = set()

    def summarize(fq_name, self_name):
        """summary of contextmanager function: (events_pre, held_at_yield, events_post);
        events: list of (mutex, frozenset(held))"""
        key = (fq_name, self_name)
        if key in memo:
            return memo[key]
        memo[key] = ([], frozenset(), [])   # recursion guard
        f = m.functions[fq_name]
        pre, post = [], []
        held_at_yield = set()
        state = {'held': [], 'phase': 'pre'}
        var_cls = {}    # local var -> class name (from `with POOL(k) as v`)

        def ev(mutex):
            (pre if state['phase'] == 'pre' else post).append((mutex, frozenset(state['held'])))

        def enter_cm(call, asvar):
            """returns list of mutexes held during the body, after recording events"""
            fn = call.func
            if isinstance(fn, ast.Name) and fn.id in pools:
                s = summarize('ThreadSafeKeyedRefPool.__call__', fn.id)
                if asvar:
                    var_cls[asvar] = pools[fn.id]
                return s
            if isinstance(fn, ast.Name) and fn.id in m.functions and is_contextmanager(m.functions[fn.id]):
                return summarize(fn.id, None)
            if isinstance(fn, ast.Attribute) and isinstance(fn.value, ast.Name):
                recv = fn.value.id
                cls = var_cls.get(recv) or (self_cls if recv == 'self' else None)
                if cls and f'{cls}.{fn.attr}' in m.functions:
                    tgt = m.functions[f'{cls}.{fn.attr}']
                    if is_contextmanager(tgt):
                        return summarize(tgt.qualname, cls)
                    # dispatcher returning one of several generators
                    subs = []
                    for r in ast.walk(tgt.node):
                        if isinstance(r, ast.Return) and isinstance(r.value, ast.Call) \
                                and isinstance(r.value.func, ast.Attribute) and self_attr(r.value.func) \
                                and f'{cls}.{r.value.func.attr}' in m.functions:
                            subs.append(summarize(f'{cls}.{r.value.func.attr}', cls))
                    if subs:
                        return ([e for s in subs for e in s[0]], frozenset().union(*[s[1] for s in subs]),
                                [e for s in subs for e in s[2]])
            return None

        self_cls = f.cls.name if f.cls else None

        def mutex_of(expr):
            a = self_attr(expr)
            if a and f.cls and a in class_lock_attrs(f.cls):
                return f'{self_name or self_cls}.{a}'
            return None

        def walk(stmts):
            for s in stmts:
                if isinstance(s, ast.With):
                    entered = []
                    for it in s.items:
                        mx = mutex_of(it.context_expr)
                        if mx:
                            ev(mx)
                            state['held'].append(mx)
                            entered.append(('m', mx))
                        elif isinstance(it.context_expr, ast.Call):
                            asvar = it.optional_vars.id if isinstance(it.optional_vars, ast.Name) else None
                            sm = enter_cm(it.context_expr, asvar)
                            if sm is None:
                                entered.append(('x', None))
                                continue
                            for mx2, h in sm[0]:
                                (pre if state['phase'] == 'pre' else post).append(
                                    (mx2, frozenset(state['held']) | h))
                            state['held'].extend(sorted(sm[1]))
                            entered.append(('s', sm))
                        else:
                            entered.append(('x', None))
                    walk(s.body)
                    for kind, obj in reversed(entered):
                        if kind == 'm':
                            state['held'].remove(obj)
                        elif kind == 's':
                            for mx2 in sorted(obj[1]):
                                state['held'].remove(mx2)
                            for mx2, h in obj[2]:
                                (pre if state['phase'] == 'pre' else post).append(
                                    (mx2, frozenset(state['held']) | h))
                    continue
                if isinstance(s, ast.Expr) and isinstance(s.value, (ast.Yield, ast.YieldFrom)):
                    held_at_yield.update(state['held'])
                    state['phase'] = 'post'
                    continue
                if isinstance(s, ast.Expr) and isinstance(s.value, ast.Call) and isinstance(s.value.func, ast.Attribute):
                    mx = mutex_of(s.value.func.value)
                    if mx and s.value.func.attr == 'acquire':
                        ev(mx)
                        state['held'].append(mx)
                    elif mx and s.value.func.attr == 'release' and mx in state['held']:
                        state['held'].remove(mx)
                    continue
                if isinstance(s, ast.If):
                    t = s.test
                    mx = None
                    if isinstance(t, ast.Call) and isinstance(t.func, ast.Attribute) and t.func.attr == 'acquire':
                        mx = mutex_of(t.func.value)
                    if mx:
                        ev(mx)
                        state['held'].append(mx)
                        walk(s.body)
                        if mx in state['held']:
                            state['held'].remove(mx)
                        walk(s.orelse)
                    else:
                        walk(s.body)
                        walk(s.orelse)
                    continue
                if isinstance(s, ast.Try):
                    walk(s.body)
                    for h in s.handlers:
                        walk(h.body)
                    walk(s.orelse)
                    walk(s.finalbody)
                    continue
                if isinstance(s, (ast.While, ast.For)):
                    walk(s.body)
                    walk(s.orelse)
        walk(f.node.body)
        memo[key] = (pre, frozenset(held_at_yield), post)
        return memo[key]

    roots = [f for f in m.functions.values() if is_contextmanager(f) and f.cls is None]
    if not roots:
        raise AnalysisError('L4: no module-level lock context managers found')
    for f in roots:
        pre, hy, post = summarize(f.qualname, None)
        for mx, held in pre + post:
            for h in held:
                if h != mx:
                    edges.add((h, mx))
        chk.instance(L4, f'{f.qualname}: {len(pre)} acquisitions before yield, held at yield {sorted(hy)}, '
                         f'{len(post)} after')
    g = nx.DiGraph()
    g.add_edges_from(edges)
    chk.extra['lock_order_edges'] = sorted(f'{a} -> {b}' for a, b in edges)
    try:
        cyc = nx.find_cycle(g)
    except nx.NetworkXNoCycle:
        cyc = None
    if cyc:
        chk.violation(L4, rel, '<module>', 'cycle ' + ' -> '.join(a for a, _ in cyc),
                      'two code paths acquire the same mutexes in opposite order',
                      witness='two threads entering through the two paths deadlock')


def run_l10_l11(chk, repo):
    from sa.cfg import CFG
    L10 = chk.rule('L10', 'process-level lock calls on the release side of a lock generator (after the yield) can only '
                          'downgrade: shared=True, blocking=True as constants', floor=1)
    L11 = chk.rule('L11', 'a path that is handed to path_lock is not opened by the caller (closing any descriptor of the file '
                          'drops the process\'s fcntl locks on it)', floor=4)
    m = repo.module('pharmpy.internals.fs.lock')
    n10 = 0
    for f in repo.all_funcs():
        if f.module is not m or not is_contextmanager(f):
            continue
        cfg = CFG(f.node)
        ys = [n.id for n in cfg.nodes.values() if n.kind == 'yield']
        if not ys:
            continue
        after = set()
        for y in ys:
            for s_ in cfg.g.successors(y):
                after |= cfg.reachable(s_)
        before = cfg.reachable(cfg.entry, avoid=set(ys))
        for nd in cfg.nodes.values():
            if nd.ast is None or nd.kind not in ('stmt',) or nd.id not in after or nd.id in before:
                continue
            for c in ast.walk(nd.ast):
                if isinstance(c, ast.Call) and dotted(c.func) == cur_name(repo, '_process_level_lock'):
                    n10 += 1
                    vals = {}
                    for i, a in enumerate(c.args[1:], start=1):
                        vals[['fd', 'shared', 'blocking'][i]] = a
                    for k in c.keywords:
                        vals[k.arg] = k.value
                    ok = all(isinstance(vals.get(k), ast.Constant) and vals[k].value is True for k in ('shared', 'blocking'))
                    chk.instance(L10, f'{f.qualname}: release-side `{unparse(c)}` is a constant shared, blocking request: {ok}')
                    if not ok:
                        chk.violation(L10, m.rel, f.qualname, unparse(c),
                                      'after an exclusive holder leaves while shared holders remain the process lock must be '
                                      'downgraded to shared; with the acquire-side variables (shared=False here) it is taken '
                                      'exclusively again', line=c.lineno,
                                      witness='thread holds the path shared, nests a reentrant exclusive section and leaves it: '
                                              'another process\'s shared request is refused / blocks')
    if n10 == 0:
        raise AnalysisError('L10: no process-level lock call on a release path found')
    n11 = 0
    for f in repo.all_funcs():
        plc = [c for c in ast.walk(f.node) if isinstance(c, ast.Call) and (dotted(c.func) or '').split('.')[-1] == 'path_lock'
               and c.args]
        if not plc or f.module is m:
            continue
        for c in plc:
            arg = c.args[0]
            # str(path) -> path
            base = arg.args[0] if isinstance(arg, ast.Call) and dotted(arg.func) == 'str' and arg.args else arg
            key = unparse(base)
            n11 += 1
            opens = []
            for o in ast.walk(f.node):
                if not isinstance(o, ast.Call):
                    continue
                fn = dotted(o.func) or ''
                if fn in ('open', 'os.open', 'io.open') and o.args and key in (unparse(o.args[0]), unparse(o.args[0]).replace('str(', '').rstrip(')')):
                    opens.append(o)
                if isinstance(o.func, ast.Attribute) and o.func.attr in ('open', 'write_text', 'read_text', 'write_bytes',
                                                                          'read_bytes') and unparse(o.func.value) == key:
                    opens.append(o)
            chk.instance(L11, f'{f.qualname}: path_lock({key}); other opens of the same path: {[unparse(o)[:40] for o in opens]}')
            for o in opens:
                chk.violation(L11, f.module.rel, f.qualname, unparse(o),
                              'the lock file is opened (and closed) outside the lock module: with POSIX record locks closing any '
                              'descriptor of a file releases all locks the process holds on it', line=o.lineno,
                              witness='thread A is inside db.snapshot(model), thread B of the same process enters snapshot: the '
                                      'process lock is dropped and another process gets the exclusive database lock')
    if n11 == 0:
        raise AnalysisError('L11: no caller of path_lock found')


def run_l12(chk, repo):
    import itertools
    from sa import tables as T_
    L12 = chk.rule('L12', 'acquire side of the process lock: the fcntl lock is (re)taken when nothing is held and for an upgrade, '
                          'and never in shared mode while an exclusive holder exists (truth table)', floor=1)
    m = repo.module('pharmpy.internals.fs.lock')
    cls = m.classes.get('ShareableProcessLock')
    f = cls.methods.get('lock') if cls else None
    if f is None:
        raise AnalysisError('ShareableProcessLock.lock not found')
    defs = {n.targets[0].id: n.value for n in walk_no_nested(f.node) if isinstance(n, ast.Assign)
            and isinstance(n.targets[0], ast.Name) and isinstance(n.value, ast.BoolOp)}
    guard = None
    for I in [x for x in walk_no_nested(f.node) if isinstance(x, ast.If)]:
        if any(isinstance(c, ast.Call) and dotted(c.func) == cur_name(repo, '_process_level_lock') and len(c.args) >= 2
               and isinstance(c.args[1], ast.Name) for s_ in I.body for c in ast.walk(s_)) \
                and 'is_held' in unparse(I.test):
            guard = I
    if guard is None:
        raise AnalysisError('L12: guard of the acquire-side process lock call not found')

    def ev(e, env):
        if isinstance(e, ast.Name) and e.id in defs and e.id not in env:
            return ev(defs[e.id], env)
        if isinstance(e, ast.BoolOp):
            vals = [ev(v, env) for v in e.values]
            return all(vals) if isinstance(e.op, ast.And) else any(vals)
        if isinstance(e, ast.UnaryOp) and isinstance(e.op, ast.Not):
            return not ev(e.operand, env)
        return T_.eval_pred(e, env)
    bad = []
    for hs, he, sh in itertools.product([False, True], repeat=3):
        env = {'is_held_shared': hs, 'is_held_exclusively': he, 'shared': sh, 'is_windows': False}
        try:
            relock = bool(ev(guard.test, env))
        except T_.Undecidable as e:
            raise AnalysisError(f'L12: cannot evaluate `{unparse(guard.test)}`: {e}')
        held = hs or he
        if not held and not relock:
            bad.append((env, 'nothing is held but the fcntl lock is not taken'))
        if he and sh and relock:
            bad.append((env, 'an exclusive holder exists and the fcntl lock is re-taken in shared mode (downgrade)'))
        if hs and not he and not sh and not relock:
            bad.append((env, 'only shared holders exist, an exclusive request does not upgrade the fcntl lock'))
    chk.instance(L12, f'`if {unparse(guard.test)}`: 8 states evaluated, wrong: {len(bad)}')
    for env, why in bad[:2]:
        chk.violation(L12, m.rel, f.qualname, f'if {unparse(guard.test)}',
                      f'{why} (state {dict((k, v) for k, v in env.items() if k != "is_windows")})', line=guard.lineno,
                      witness='a thread holds the path exclusively and nests a reentrant shared request: another process then '
                              'gets a shared lock while the exclusive section is still running')


def run_l13(chk, repo):
    """readers and writers of one file must lock the SAME lock file"""
    from sa import reach
    L13 = chk.rule('L13', '_read_lock and _write_lock of a class derive the lock file from the path in the same way', floor=2)
    n = 0
    for modname in ('pharmpy.workflows.contexts.local_directory', 'pharmpy.workflows.model_database.local_directory'):
        m = repo.module(modname)
        for c in dict.values(m.classes):
            r, w = c.methods.get('_read_lock'), c.methods.get('_write_lock')
            if r is None or w is None:
                # the helpers may have been folded into their only callers: the reader / writer entry points themselves
                r, w = c.methods.get('snapshot'), c.methods.get('transaction')
                if r is None or w is None or not all(any(isinstance(x, ast.Call) and (dotted(x.func) or '').endswith('path_lock')
                                                         for x in ast.walk(f_.node)) for f_ in (r, w)):
                    continue
            texts = {}
            for nm, f in (('read', r), ('write', w)):
                cfg = CFG(f.node)
                calls = [x for x in ast.walk(f.node) if isinstance(x, ast.Call) and (dotted(x.func) or '').endswith('path_lock')
                         and x.args]
                if not calls:
                    raise AnalysisError(f'L13: path_lock(...) not found in {c.name}._{nm}_lock')
                nid = reach.node_containing(cfg, calls[0])
                e = reach.expand_expr(cfg, nid, calls[0].args[0]) if nid is not None else calls[0].args[0]
                # plus the re-bindings of the names it is made of (path = path.with_suffix('.lock') reads what it defines
                # and is therefore not expanded)
                names_ = {x.id for x in ast.walk(e) if isinstance(x, ast.Name)}
                rebinds = [unparse(a) for a in walk_no_nested(f.node) if isinstance(a, ast.Assign)
                           and any(isinstance(t, ast.Name) and t.id in names_ for t in a.targets)]
                texts[nm] = '; '.join(rebinds + [unparse(e)])
            n += 1
            ok = texts['read'] == texts['write']
            chk.instance(L13, f'{c.name}: read lock on {texts["read"][:60]}, write lock on {texts["write"][:60]}: same file {ok}')
            if not ok:
                chk.violation(L13, m.rel, f'{c.name}._read_lock / _write_lock', f'{texts["read"]} vs {texts["write"]}',
                              'readers and writers lock different files: a writer is not excluded while a reader is inside',
                              line=w.node.lineno,
                              witness='retrieve_log() reading log.csv while log_info() appends: the reader locks log.lock, the '
                                      'writer log.csv.lock')
    if n < 2:
        raise AnalysisError(f'L13: only {n} _read_lock/_write_lock pairs found')


def run_l14(chk, repo):
    """both levels of path_lock are keyed by the NORMALISED path: two spellings of one file must meet in the same thread-level
    lock object and the same file descriptor"""
    from sa import reach
    L14 = chk.rule('L14', 'path_lock: thread_level_lock and process_level_path_lock both receive the normalised path', floor=2)
    m = repo.module('pharmpy.internals.fs.lock')
    f = m.functions.get('path_lock')
    if f is None:
        raise AnalysisError('path_lock not found')
    cfg = CFG(f.node)
    NORM = ('normpath', 'abspath', 'realpath', 'resolve')
    n = 0
    for nd in cfg.nodes.values():
        if nd.kind != 'with_enter' or nd.item is None:
            continue
        c = nd.item.context_expr
        if isinstance(c, ast.Call) and dotted(c.func) in ('thread_level_lock', 'process_level_path_lock') and c.args:
            n += 1
            e = reach.expand_expr(cfg, nd.id, c.args[0])
            ok = any(isinstance(x, ast.Call) and (dotted(x.func) or '').split('.')[-1] in NORM for x in ast.walk(e))
            chk.instance(L14, f'path_lock: {dotted(c.func)}({unparse(e)[:40]}, ..) keyed by a normalised path: {ok}')
            if not ok:
                chk.violation(L14, m.rel, f.name, unparse(c)[:80],
                              'the lock object is looked up under the spelling the caller used: dir/lock and dir/./lock get two '
                              'thread-level locks for one file', line=nd.line,
                              witness='two threads locking dir/lock and dir//lock exclusively are both granted')
    if n < 2:
        raise AnalysisError(f'L14: only {n} lock levels found in path_lock')


def run_l15(chk, repo):
    """L15: an exclusive request waits for (or is refused because of) the holds of OTHER threads; its own holds are what the
    thread has in the holder table, whatever kind of request it makes. Whether the request is reentrant decides only what
    happens afterwards (RecursiveDeadlockError). So the wait / refuse conditions of _lock_ex, with their locals resolved, are
    functions of the holder table and the thread id alone - not of the flags of the request"""
    from sa.cfg import CFG
    from sa import reach
    L15 = chk.rule('L15', 'ShareableThreadLock._lock_ex: the "held by other threads" conditions (wait loop and refusal) do not '
                          'depend on the reentrant / blocking flags of the request', floor=2)
    m = repo.module(MOD)
    cls = m.classes.get('ShareableThreadLock')
    f = cls.methods.get('_lock_ex') if cls else None
    if f is None and cls is not None:
        f = cls.methods.get('lock')            # the two private context managers may have been merged into lock()
    if f is None:
        raise AnalysisError('L15: ShareableThreadLock._lock_ex not found')
    flags = {a.arg for a in f.node.args.args if a.arg not in ('self', 'shared')}
    cfg = CFG(f.node)
    closures = {g.name: g for g in ast.walk(f.node) if isinstance(g, ast.FunctionDef) and g is not f.node}

    def expand(nid, e):
        try:
            return reach.expand_expr(cfg, nid, e, depth=4)
        except TypeError:
            return reach.expand_expr(cfg, nid, e)
    conds = []          # (node id for resolving locals, expression, text)
    for t_ in [x for x in cfg.nodes.values() if x.kind == 'test']:
        conds.append((t_.id, t_.ast, t_.line))
        # a local predicate called in the test stands for what it returns
        for c in ast.walk(t_.ast):
            if isinstance(c, ast.Call) and isinstance(c.func, ast.Name) and c.func.id in closures:
                for r in ast.walk(closures[c.func.id]):
                    if isinstance(r, ast.Return) and r.value is not None:
                        conds.append((t_.id, r.value, r.lineno))
    for nd in cfg.nodes.values():
        if nd.ast is None or not isinstance(nd.ast, ast.AST):
            continue
        for c in ast.walk(nd.ast):
            if isinstance(c, ast.Call) and isinstance(c.func, ast.Attribute) and c.func.attr == 'wait_for' and c.args:
                p_ = c.args[0]
                if isinstance(p_, ast.Lambda):
                    conds.append((nd.id, p_.body, c.lineno))
                elif isinstance(p_, ast.Name) and p_.id in closures:
                    for r in ast.walk(closures[p_.id]):
                        if isinstance(r, ast.Return) and r.value is not None:
                            conds.append((nd.id, r.value, r.lineno))
    n, seen_ = 0, set()
    for nid, e, line in conds:
        full = expand(nid, e)
        src_ = unparse(full)
        if '_acquired_by' not in src_ or src_ in seen_:
            continue
        # only conditions that set the table against the thread's own holds (a difference / other keys), not `if table:`
        if not any(isinstance(x, (ast.BinOp, ast.Compare)) or (isinstance(x, ast.Call) and not (
                isinstance(x.func, ast.Name) and x.func.id in closures)) for x in ast.walk(full)):
            continue
        if not any(isinstance(x, ast.BinOp) and isinstance(x.op, ast.Sub) and '_acquired_by' in unparse(x.left)
                   for x in ast.walk(full)):
            continue            # "held by OTHER threads" is a difference: table minus own holds / keys minus own id
        seen_.add(src_)
        used = {x.id for x in ast.walk(full) if isinstance(x, ast.Name)} & flags
        n += 1
        chk.instance(L15, f'{f.name}: `{unparse(e)[:60]}` independent of the request flags: {not used}')
        if used:
            chk.violation(L15, m.rel, f.qualname, f'{unparse(e)[:60]} depends on {sorted(used)}',
                          f'what counts as "held by others" depends on the flag(s) {sorted(used)}: a non-reentrant request of a '
                          f'thread that already holds the lock waits for its own hold (forever) instead of raising '
                          f'RecursiveDeadlockError', line=line,
                          witness='with path_lock(p, shared=False): with path_lock(p, shared=False, reentrant=False): the inner '
                                  'request hangs')
    if n < 1:
        raise AnalysisError('L15: no condition on the holds of other threads found in the exclusive lock')
