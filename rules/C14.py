"""C14 Dataset derivations agree with event semantics: Q1 resolved-column discipline (contradiction rule),
Q2 baselines are the first record, Q3/Q4 ordering of flagging steps in the dose-period and ADDL code."""
from __future__ import annotations

import ast
import re

from sa.cfg import CFG
from sa.report import AnalysisError
from sa.srcmodel import unparse, walk_no_nested, calls_in, dotted

DATA = 'pharmpy.modeling.data'
ROLE_LITERALS = {'id': {'ID', 'L1'}}


def names(node):
    return {n.id for n in ast.walk(node) if isinstance(n, ast.Name)}


def run(chk, repo, tier):
    chk.explanation = (
        'Q1 (contradiction rule): a function of pharmpy.modeling that resolves the id column name from the DataInfo must '
        'not also address a frame with the literal "ID" (subscript, groupby key, DataFrame constructor key). Q2: baselines '
        'are taken positionally (nth(0) / head(1)), not with GroupBy.first(), which skips missing values. Q3: the dose flag '
        'is thresholded before it is cast to int. Q4: reset groups are computed before additional doses are exploded. The '
        'mutation clause of the property ("functions that add a derived column keep the input unchanged") is decided by '
        'C06/M1. NOT decided: dose ids, TAD, ADDL expansion and ties on arbitrary event tables (vectorised pandas semantics).')
    Q1 = chk.rule('Q1', 'no literal role column name in a function that resolves that role from DataInfo', floor=25)
    Q2 = chk.rule('Q2', 'baseline = first record per individual (positional), not first non-missing value', floor=2)
    Q3 = chk.rule('Q3', 'dose flag: threshold (> 0 -> 1) before the integer cast', floor=1)
    Q4 = chk.rule('Q4', 'reset groups computed before the ADDL explode', floor=1)

    n_resolving = 0
    for mod in repo.modules.values():
        if not mod.name.startswith('pharmpy.modeling'):
            continue
        for f in mod.functions.values():
            if f.parent is not None:
                continue
            resolved = [n for n in ast.walk(f.node) if isinstance(n, ast.Attribute) and n.attr == 'name'
                        and isinstance(n.value, ast.Attribute) and n.value.attr == 'id_column']
            resolved += [n for n in ast.walk(f.node) if isinstance(n, ast.Subscript) and unparse(n.value).endswith('typeix')
                         and isinstance(n.slice, ast.Constant) and n.slice.value == 'id']
            if not resolved:
                continue
            n_resolving += 1
            lits = []
            for n in ast.walk(f.node):
                # df['ID'] / model.dataset["ID"]
                if isinstance(n, ast.Subscript) and isinstance(n.slice, ast.Constant) and n.slice.value in ROLE_LITERALS['id'] \
                        and not unparse(n.value).endswith(('typeix', 'types', 'datainfo', 'di')):
                    lits.append((n, f'{unparse(n)}'))
                if isinstance(n, ast.Call) and isinstance(n.func, ast.Attribute) and n.func.attr in ('groupby', 'set_index',
                                                                                                   'sort_values', 'merge'):
                    for a in list(n.args) + [kw.value for kw in n.keywords]:
                        for c in ast.walk(a):
                            if isinstance(c, ast.Constant) and c.value in ROLE_LITERALS['id']:
                                lits.append((n, unparse(n)[:80]))
                if isinstance(n, ast.Call) and dotted(n.func) in ('pd.DataFrame', 'DataFrame') and n.args \
                        and isinstance(n.args[0], ast.Dict):
                    for k in n.args[0].keys:
                        if isinstance(k, ast.Constant) and k.value in ROLE_LITERALS['id']:
                            lits.append((n, f'DataFrame key {k.value!r}'))
            chk.instance(Q1, f'{f.qualname}: resolves the id column; literal uses: {len(lits)}')
            seen = set()
            for n, txt in lits:
                if txt in seen:
                    continue
                seen.add(txt)
                chk.violation(Q1, mod.rel, f.qualname, txt,
                              'the function resolves the id column from the datainfo but also addresses the frame with the '
                              'literal column name', line=n.lineno,
                              witness='a dataset whose id column is not called ID (e.g. SUBJ, with type id in the datainfo): '
                                      'the function raises KeyError')
    if n_resolving < 20:
        raise AnalysisError(f'Q1: only {n_resolving} functions resolving the id column found')

    dm = repo.module(DATA)
    # ---------------------------------------------------------------- Q2
    for fname in ('get_baselines', 'get_covariate_baselines'):
        f = dm.functions.get(fname)
        if f is None:
            raise AnalysisError(f'{fname} not found')
        gb = [c for c in calls_in(f.node) if isinstance(c.func, ast.Attribute) and 'groupby(' in unparse(c.func.value)]
        meths = [c.func.attr for c in gb]
        chk.instance(Q2, f'{fname}: groupby(...).{meths}')
        positional = any(c.func.attr in ('nth', 'head') and c.args and unparse(c.args[0]) in ('0', '1') for c in gb)
        skipping = [c for c in gb if c.func.attr in ('first', 'last', 'min', 'max', 'mean')]
        if skipping or not positional:
            chk.violation(Q2, dm.rel, fname, unparse((skipping or gb or [f.node])[0])[:100],
                          'the baseline is not taken as the first record of each individual (GroupBy.first() returns the first '
                          'non-missing value of every column)', line=f.node.lineno,
                          witness='an individual whose first record has a missing covariate / DV: the baseline row mixes values '
                                  'from later records')
    # ---------------------------------------------------------------- Q3
    gd = dm.functions.get('get_doseid')
    if gd is None:
        raise AnalysisError('get_doseid not found')
    cfg = CFG(gd.node)
    casts = [n for n in cfg.nodes.values() if isinstance(n.ast, ast.Assign) and "'DOSEID'" in unparse(n.ast.targets[0])
             and 'astype(int)' in unparse(n.ast.value)]
    thresh = [n for n in cfg.nodes.values() if isinstance(n.ast, ast.Assign) and "'DOSEID'" in unparse(n.ast.targets[0])
              and '.loc[' in unparse(n.ast.targets[0]) and '> 0' in unparse(n.ast.targets[0])]
    if not casts or not thresh:
        raise AnalysisError('Q3: dose flag construction (threshold / int cast) not found in get_doseid')
    for c in casts:
        ok = any(cfg.dominates(t.id, c.id) for t in thresh)
        chk.instance(Q3, f'{c.text()} after {thresh[0].text()}: {ok}')
        if not ok:
            chk.violation(Q3, dm.rel, 'get_doseid', c.text(),
                          'the dose amount is truncated to an integer before it is turned into a 0/1 dose flag', line=c.line,
                          witness='doses with 0 < AMT < 1 (0.25 mg): they do not open a dose period; time after dose is not '
                                  'zero at those doses')
    # ---------------------------------------------------------------- Q4
    ea = dm.functions.get('expand_additional_doses')
    if ea is None:
        raise AnalysisError('expand_additional_doses not found')
    cfg = CFG(ea.node)
    resets = [n for n in cfg.nodes.values() if isinstance(n.ast, ast.Assign) and "'_RESETGROUP'" in unparse(n.ast.targets[0])]
    from sa import reach
    expl = [n for n in cfg.nodes.values() if n.ast is not None and n.kind == 'stmt' and isinstance(n.ast, ast.stmt)
            and reach.stmt_or_local_callee(ea.node, n.ast, lambda x: isinstance(x, ast.Call) and isinstance(
                x.func, ast.Attribute) and x.func.attr == 'explode')]
    if not resets or not expl:
        raise AnalysisError('Q4: reset group / explode steps not found in expand_additional_doses')
    for e in expl:
        ok = all(e.id not in cfg.reachable(cfg.entry, avoid={r.id for r in resets}) for _ in [0])
        chk.instance(Q4, f'{e.text()[:60]} after the reset-group computation: {ok}')
        if not ok:
            chk.violation(Q4, dm.rel, 'expand_additional_doses', e.text()[:100],
                          'additional doses are exploded before the reset groups are computed: every copy of a reset record '
                          'starts its own group', line=e.line,
                          witness='an EVID=4 record with ADDL>0 followed by observations between the additional doses: the '
                                  'expanded records are not in chronological order and time after dose becomes negative')
    run_more(chk, repo, dm)
    run_q8(chk, repo, dm)
    run_q9_q10(chk, repo, dm)
    run_q11_q13(chk, repo)


def run_more(chk, repo, dm):
    from sa import tables as T_
    Q5 = chk.rule('Q5', 'reset flags: every site that opens a reset group selects exactly EVID 3 and 4, and the sites agree',
                  floor=2)
    Q6 = chk.rule('Q6', 'frame sorts that merge records by time are stable (ties keep the recorded order)', floor=2)
    Q7 = chk.rule('Q7', 'role look-ups through DataInfo ignore dropped columns (type and descriptor indexers agree)', floor=2)
    # Q14: records of one individual at one time are only "at the same time" within one reset group
    Q14 = chk.rule('Q14', 'get_doseid: the key that finds records of an individual at the same time (groupby / duplicated over '
                          'the id and the time column) also carries the reset group', floor=1)
    gd = dm.functions.get('get_doseid')
    if gd is None:
        raise AnalysisError('get_doseid not found')

    def role_names(fnode, attr):
        return {n.targets[0].id for n in walk_no_nested(fnode) if isinstance(n, ast.Assign) and len(n.targets) == 1
                and isinstance(n.targets[0], ast.Name) and unparse(n.value).endswith(f'.{attr}.name')}
    ids_, idvs_ = role_names(gd.node, 'id_column'), role_names(gd.node, 'idv_column')
    rg_names = {n.targets[0].id for n in walk_no_nested(gd.node) if isinstance(n, ast.Assign) and isinstance(n.targets[0], ast.Name)
                and isinstance(n.value, ast.Constant) and n.value.value == '_RESETGROUP'}
    n14 = 0
    for c in ast.walk(gd.node):
        if not (isinstance(c, ast.Call) and isinstance(c.func, ast.Attribute)
                and c.func.attr in ('groupby', 'duplicated', 'drop_duplicates')):
            continue
        keys = [a for a in list(c.args) + [k.value for k in c.keywords if k.arg in ('by', 'subset')]
                if isinstance(a, (ast.List, ast.Tuple))]
        for kl in keys:
            names = {e.id for e in kl.elts if isinstance(e, ast.Name)}
            if not (names & ids_ and names & idvs_):
                continue
            n14 += 1
            ok = any((isinstance(e, ast.Constant) and e.value == '_RESETGROUP') or (isinstance(e, ast.Name) and e.id in rg_names)
                     for e in kl.elts)
            chk.instance(Q14, f'get_doseid: {c.func.attr}({unparse(kl)}): reset group in the key: {ok}')
            if not ok:
                chk.violation(Q14, dm.rel, 'get_doseid', f'{c.func.attr}({unparse(kl)})',
                              'records before and after a reset (EVID 3/4, TIME restarting) that share a TIME value count as '
                              'simultaneous', line=c.lineno,
                              witness='one individual, dose at TIME 0, EVID=4 later with TIME restarting at 0, an observation '
                                      'at a TIME equal to that of a dose of the first occasion: it is moved to the dose period '
                                      'before and gets time after dose 0')
    if n14 == 0:
        raise AnalysisError('Q14: no key over the id and the time column found in get_doseid')
    # Q15: a test on the steady-state column holds for every steady-state code (SS = 1, 2 and 3), not for SS = 0
    Q15 = chk.rule('Q15', 'tests on the SS column treat SS = 1, 2 and 3 alike (all are steady-state doses) and SS = 0 as not',
                   floor=1)
    n15 = 0
    for f in dm.functions.values():
        ssn = {n.targets[0].id for n in walk_no_nested(f.node) if isinstance(n, ast.Assign) and len(n.targets) == 1
               and isinstance(n.targets[0], ast.Name) and "typeix['ss']" in unparse(n.value)}
        if not ssn:
            continue
        for cmp_ in [x for x in ast.walk(f.node) if isinstance(x, ast.Compare) and len(x.ops) == 1]:
            sides = [cmp_.left, cmp_.comparators[0]]
            col = [x for x in sides if isinstance(x, ast.Subscript)
                   and any(isinstance(y, ast.Name) and y.id in ssn for y in ast.walk(x.slice))]
            const = [x for x in sides if isinstance(x, ast.Constant) and isinstance(x.value, (int, float))
                     and not isinstance(x.value, bool)]
            if len(col) != 1 or len(const) != 1:
                continue
            got = set()
            for v in (0, 1, 2, 3):
                test = ast.Compare(left=ast.Name(id='_v', ctx=ast.Load()) if col[0] is cmp_.left else cmp_.left,
                                   ops=cmp_.ops,
                                   comparators=[cmp_.comparators[0] if col[0] is cmp_.left else ast.Name(id='_v', ctx=ast.Load())])
                try:
                    if T_.eval_pred(test, {'_v': v}):
                        got.add(v)
                except T_.Undecidable as e:
                    raise AnalysisError(f'Q15: cannot evaluate {unparse(cmp_)}: {e}')
            n15 += 1
            ok = got in ({1, 2, 3}, {0})
            chk.instance(Q15, f'{f.name}: `{unparse(cmp_)}` holds for SS in {sorted(got)}')
            if not ok:
                chk.violation(Q15, dm.rel, f.name, unparse(cmp_),
                              f'the test separates the steady-state codes: it holds for SS in {sorted(got)}; NM-TRAN treats SS = 1, '
                              f'2 and 3 as steady-state doses', line=cmp_.lineno,
                              witness='a dose with SS=2 and an observation at the same time: the observation is moved to the '
                                      'previous dose period and gets the time after dose of the dose before')
    if n15 == 0:
        raise AnalysisError('Q15: no test on the steady-state column found')
    # Q5: assignments X['_FLAG'] = X[<event column>] <op> <const> in functions that build '_RESETGROUP'
    sets_ = {}
    for f in dm.functions.values():
        if "'_RESETGROUP'" not in unparse(f.node):
            continue
        evnames = {n.targets[0].id for n in walk_no_nested(f.node) if isinstance(n, ast.Assign)
                   and isinstance(n.targets[0], ast.Name) and "typeix['event']" in unparse(n.value)}
        for n in walk_no_nested(f.node):
            if isinstance(n, ast.Assign) and isinstance(n.value, ast.Compare) and isinstance(n.value.left, ast.Subscript) \
                    and isinstance(n.value.left.slice, ast.Name) and n.value.left.slice.id in evnames:
                cmp_ = n.value
                got = set()
                for v in (0, 1, 2, 3, 4):
                    test = ast.Compare(left=ast.Name(id='_v', ctx=ast.Load()), ops=cmp_.ops, comparators=cmp_.comparators)
                    try:
                        if T_.eval_pred(test, {'_v': v}):
                            got.add(v)
                    except T_.Undecidable as e:
                        raise AnalysisError(f'Q5: cannot evaluate {unparse(cmp_)}: {e}')
                sets_[(f.name, unparse(n))] = (got, n)
    if len(sets_) < 2:
        raise AnalysisError(f'Q5: reset flag definitions not found ({len(sets_)})')
    for (fn, txt), (got, n) in sorted(sets_.items()):
        chk.instance(Q5, f'{fn}: `{txt}` selects EVID {sorted(got)}')
        if got != {3, 4}:
            chk.violation(Q5, dm.rel, fn, txt,
                          f'a reset group is opened for EVID {sorted(got)}; NM-TRAN resets the system for EVID 3 (reset) and 4 '
                          f'(reset and dose)', line=n.lineno,
                          witness='EVID=4 in the data and an observation after the reset at the clock time of an earlier dose: '
                                  'it is attached to the dose period before the reset')
    # Q6
    n6 = 0
    for f in dm.functions.values():
        for c in ast.walk(f.node):
            if isinstance(c, ast.Call) and isinstance(c.func, ast.Attribute) and c.func.attr == 'sort_values' \
                    and any(k.arg == 'by' for k in c.keywords):
                n6 += 1
                kind = next((k.value.value for k in c.keywords if k.arg == 'kind' and isinstance(k.value, ast.Constant)), None)
                ok = kind in ('stable', 'mergesort')
                chk.instance(Q6, f'{f.name}: {unparse(c)[:70]} stable: {ok}')
                if not ok:
                    chk.violation(Q6, dm.rel, f.name, unparse(c)[:100],
                                  'the default sort (quicksort) does not keep the order of records with equal keys once a group '
                                  'has more than 16 rows', line=c.lineno,
                                  witness='an individual with more than 16 records after ADDL expansion and two records at the '
                                          'same time (dose and trough sample): they come out swapped')
    if n6 == 0:
        raise AnalysisError('Q6: no frame sort found')
    # Q7
    im = repo.module('pharmpy.model.datainfo')
    for cname in ('TypeIndexer', 'DescriptorIndexer'):
        c = im.classes.get(cname)
        gi = c.methods.get('__getitem__') if c else None
        if gi is None:
            raise AnalysisError(f'{cname}.__getitem__ not found')
        comps = [n for n in ast.walk(gi.node) if isinstance(n, ast.ListComp)]
        if not comps:
            raise AnalysisError(f'{cname}.__getitem__: selection comprehension not found')
        ifs = ' and '.join(unparse(i) for i in comps[0].generators[0].ifs)
        ok = any(isinstance(x, ast.UnaryOp) and isinstance(x.op, ast.Not) and unparse(x.operand).endswith('.drop')
                 for i in comps[0].generators[0].ifs for x in ast.walk(i))
        chk.instance(Q7, f'{cname}: selects columns with `{ifs}`; excludes dropped: {ok}')
        if not ok:
            chk.violation(Q7, im.rel, gi.qualname, f'[... if {ifs}]',
                          'a column marked as dropped is still returned for its type/descriptor, so derivations keep using it '
                          'instead of falling back to the next source (MDV, then EVID, then AMT)', line=comps[0].lineno,
                          witness='drop_columns(model, ["MDV"], mark=True) on data whose MDV also flags BLQ samples: '
                                  'get_observations still uses MDV')


def run_q8(chk, repo, dm):
    from sa.cfg import CFG
    Q8 = chk.rule('Q8', 'add_time_after_dose: the column that expand_additional_doses fills with the additional dose times is '
                        'the column TAD is computed from', floor=1)
    f = dm.functions.get('add_time_after_dose')
    if f is None:
        raise AnalysisError('add_time_after_dose not found')
    cfg = CFG(f.node)
    exp_nodes = [n for n in cfg.nodes.values() if n.kind == 'stmt' and n.ast is not None
                 and any(isinstance(c, ast.Call) and dotted(c.func) == 'expand_additional_doses' for c in ast.walk(n.ast))]
    reads = [c.value for c in ast.walk(f.node) if isinstance(c, ast.Subscript) and isinstance(c.slice, ast.Constant)
             and isinstance(c.slice.value, str) and c.slice.value.startswith('_') and 'TIME' in c.slice.value]
    if not exp_nodes:
        chk.instance(Q8, 'add_time_after_dose does not expand additional doses')
        return
    col = next((c.slice.value for c in ast.walk(f.node) if isinstance(c, ast.Subscript) and isinstance(c.slice, ast.Constant)
                and isinstance(c.slice.value, str) and c.slice.value.startswith('_') and 'TIME' in c.slice.value), None)
    if col is None:
        raise AnalysisError('Q8: working time column not found')
    retype = {n.id for n in cfg.nodes.values() if n.kind == 'stmt' and n.ast is not None
              and any(isinstance(c, ast.Call) and isinstance(c.func, ast.Attribute) and c.func.attr == 'replace'
                      and any(k.arg == 'type' and isinstance(k.value, ast.Constant) and k.value.value == 'idv' for k in c.keywords)
                      and col in unparse(c.func.value) for c in ast.walk(n.ast))}
    for e in exp_nodes:
        ok = bool(retype) and e.id not in cfg.reachable(cfg.entry, avoid=retype, labels_excluded=('exc', 'fexc'))
        chk.instance(Q8, f'`{e.text()[:60]}` is reached only after `{col}` was declared the idv column: {ok}')
        if not ok:
            chk.violation(Q8, dm.rel, 'add_time_after_dose', e.text()[:80],
                          f'expand_additional_doses writes the times of the additional doses into the idv column of the model it '
                          f'is given; TAD is computed from `{col}`, which is not that column here', line=e.line,
                          witness='a dose with ADDL > 0 and observations after the first additional dose: their TAD counts from '
                                  'the original dose record')


def _first_choice(fnode, choices, globals_=None, funcs=None):
    """Which of the constant `choices` wins when every look-up succeeds: structured run of the statements that bind a local
    from `...[<choice>]...` (nested try/except, a for loop over the choices with or without break, an if/elif chain)."""
    class Done(Exception):
        pass
    result = {}

    def value_of(e, env):
        t = unparse(e)
        for k, v in env.items():
            t = re.sub(rf'\b{k}\b', repr(v), t)
        return t

    def run(stmts, env, in_loop=False):
        for s_ in stmts:
            if isinstance(s_, ast.Assign) and len(s_.targets) == 1 and isinstance(s_.targets[0], ast.Name) \
                    and isinstance(s_.value, ast.Call) and funcs and dict.get(funcs, dotted(s_.value.func) or '') is not None:
                # the look-up lives in a helper of the module: run it with the arguments bound
                g_ = dict.get(funcs, dotted(s_.value.func))
                env2 = {}
                for p_, a_ in zip(g_.params, s_.value.args):
                    if isinstance(a_, ast.Name) and globals_ and isinstance(globals_.get(a_.id), (ast.Tuple, ast.List)):
                        env2[p_] = [e.value for e in globals_[a_.id].elts if isinstance(e, ast.Constant)]
                    elif isinstance(a_, (ast.Tuple, ast.List)) and all(isinstance(e, ast.Constant) for e in a_.elts):
                        env2[p_] = [e.value for e in a_.elts]
                saved = dict(result)
                result.pop('<return>', None)
                run(g_.node.body, env2)
                ret = result.get('<return>')
                result.clear()
                result.update(saved)
                result[s_.targets[0].id] = ret if ret is not None else value_of(s_.value, env)
            elif isinstance(s_, ast.Assign) and len(s_.targets) == 1 and isinstance(s_.targets[0], ast.Name):
                result[s_.targets[0].id] = value_of(s_.value, env)
            elif isinstance(s_, ast.Try):
                r = run(s_.body, env, in_loop)       # every look-up succeeds: handlers not taken
                if r:
                    return r
                r = run(s_.orelse, env, in_loop)
                if r:
                    return r
            elif isinstance(s_, ast.For) and isinstance(s_.iter, (ast.List, ast.Tuple)) and isinstance(s_.target, ast.Name) \
                    and all(isinstance(e, ast.Constant) for e in s_.iter.elts):
                broke = False
                for e in s_.iter.elts:
                    r = run(s_.body, dict(env, **{s_.target.id: e.value}), True)
                    if r == 'break':
                        broke = True
                        break
                    if r == 'return':
                        return r
                if not broke:
                    run(s_.orelse, env, in_loop)
            elif isinstance(s_, ast.For) and isinstance(s_.iter, ast.Name) and isinstance(s_.target, ast.Name) and (
                    (s_.iter.id in env and isinstance(env[s_.iter.id], (list, tuple)))
                    or (globals_ and isinstance(globals_.get(s_.iter.id), (ast.Tuple, ast.List))
                        and all(isinstance(e, ast.Constant) for e in globals_[s_.iter.id].elts))):
                seq_ = env[s_.iter.id] if s_.iter.id in env else [e.value for e in globals_[s_.iter.id].elts]
                broke = False
                for v in seq_:
                    r = run(s_.body, dict(env, **{s_.target.id: v}), True)
                    if r == 'break':
                        broke = True
                        break
                    if r == 'return':
                        return r
                if not broke:
                    run(s_.orelse, env, in_loop)
            elif isinstance(s_, ast.If):
                # `if cols:` / `if x is not None:` on a look-up that succeeded: taken
                r = run(s_.body, env, in_loop)
                if r:
                    return r
            elif isinstance(s_, ast.Break):
                return 'break'
            elif isinstance(s_, ast.Continue):
                return None
            elif isinstance(s_, ast.Return):
                if s_.value is not None and '<return>' not in result:
                    result['<return>'] = value_of(s_.value, env)
                return 'return'
        return None
    env0 = {}
    # module-level / local tuples of the choices (a named constant for the priority order)
    run(fnode.body, env0)
    return result


def run_q9_q10(chk, repo, dm):
    """Q9: observations are identified by MDV, else EVID, else the dose column (first available wins); Q10: a forward fill of a
    per-record quantity is done per individual"""
    Q9 = chk.rule('Q9', 'get_observations / get_mdv: with MDV, EVID and a dose column all present the MDV column decides '
                        '(first choice of the look-up)', floor=1)
    n = 0
    for name in ('get_observations', 'get_mdv'):
        f = dm.functions.get(name)
        if f is None:
            raise AnalysisError(f'{name} not found')
        # statements up to the first use of the label: the look-up prefix
        prefix = []
        for s_ in f.node.body:
            prefix.append(s_)
            if any(isinstance(c, ast.Constant) and c.value == 'dose' for c in ast.walk(s_)):
                break
        res = _first_choice(ast.Module(body=prefix, type_ignores=[]), ('mdv', 'event', 'dose'), dm.globals_, dm.functions)
        cands = {k: v for k, v in res.items() if any(f"'{c}'" in v for c in ('mdv', 'event', 'dose'))}
        if not cands:
            continue
        n += 1
        for var, v in sorted(cands.items()):
            ok = "'mdv'" in v
            chk.instance(Q9, f'{name}: with every column type present `{var}` = {v[:60]}: MDV decides {ok}')
            if not ok:
                chk.violation(Q9, dm.rel, name, f'{var} = {v[:80]}',
                              'with MDV (or EVID) and AMT present the records are classified by a later choice of the look-up: '
                              'EVID=2/3 and MDV=1 records with AMT=0 count as observations', line=f.node.lineno,
                              witness='a dataset with EVID and AMT containing an EVID=2 record: get_observations returns it')
    if n == 0:
        raise AnalysisError('Q9: look-up of the observation column not recognised in get_observations / get_mdv')
    Q10 = chk.rule('Q10', 'forward / backward fills in modeling/data.py are applied per individual (on a groupby of the '
                          'subject column)', floor=1)
    fills = []
    for f in dict.values(dm.functions):
        for c in calls_in(f.node):
            if isinstance(c.func, ast.Attribute) and (c.func.attr in ('ffill', 'bfill') or (
                    c.func.attr == 'fillna' and any(k.arg == 'method' for k in c.keywords))):
                fills.append((f, c))
    positive = ast.parse("def f(adm, is_dose):\n    return adm.where(is_dose).ffill()").body[0]
    pos_hit = any(isinstance(c.func, ast.Attribute) and c.func.attr == 'ffill' and 'groupby' not in unparse(c.func.value)
                  for c in ast.walk(positive) if isinstance(c, ast.Call))
    chk.instance(Q10, f'modeling/data.py: {len(fills)} fill call(s); positive example recognised: {pos_hit}')
    if not pos_hit:
        raise AnalysisError('Q10: positive example not recognised')
    for f, c in fills:
        grouped = 'groupby' in unparse(c.func.value)
        chk.instance(Q10, f'{f.name}: {unparse(c)[:70]} grouped by individual: {grouped}')
        if not grouped:
            chk.violation(Q10, dm.rel, f.name, unparse(c)[:100],
                          'the value of the last record of one individual is carried into the first records of the next',
                          line=c.lineno,
                          witness='two individuals, the first ending on route 2, the second starting with observations before '
                                  'its first dose: they get admid 2')


def run_q11_q13(chk, repo):
    """Q11: without a CMT column, dose records (EVID 1 and EVID 4) get the dosing compartment, other events 0; Q12:
    add_time_after_dose works on a copy of the input model's dataset (the time-translated temporary only supplies the helper
    time); Q13: the rows of expanded additional doses are removed only after TAD was computed from them"""
    from sa import reach
    dm = repo.module('pharmpy.modeling.data')
    Q11 = chk.rule('Q11', 'get_cmt (no CMT column): EVID 1 and EVID 4 are both dose records', floor=1)
    f = dm.functions.get('get_cmt')
    if f is None:
        raise AnalysisError('get_cmt not found')
    dicts = [d for d in ast.walk(f.node) if isinstance(d, ast.Dict) and d.keys and all(
        isinstance(k, ast.Constant) and isinstance(k.value, int) for k in d.keys)]
    n11 = 0
    for d in dicts:
        m_ = {k.value: unparse(v) for k, v in zip(d.keys, d.values)}
        if 1 in m_:
            n11 += 1
            ok = m_.get(4) == m_[1] and m_[1] != '0'
            chk.instance(Q11, f'get_cmt: EVID map {m_}: 4 treated like 1: {ok}')
            if not ok:
                chk.violation(Q11, dm.rel, f.name, unparse(d)[:80], 'EVID=4 (reset and dose) is not given the dosing compartment',
                              line=d.lineno, witness='a dataset with EVID=4 dose records and no CMT column: add_cmt puts them '
                                                     'into compartment 0')
    if n11 == 0:
        # another spelling: comparisons of the EVID series with constants
        consts = {c.value for x in ast.walk(f.node) if isinstance(x, (ast.Compare, ast.Call))
                  for c in ast.walk(x) if isinstance(c, ast.Constant) and isinstance(c.value, int)
                  and ('evid' in unparse(x).lower())}
        if not consts:
            raise AnalysisError('Q11: EVID handling of get_cmt not recognised')
        n11 += 1
        ok = {1, 4} <= consts
        chk.instance(Q11, f'get_cmt: EVID values compared {sorted(consts)}: 1 and 4 both dose: {ok}')
        if not ok:
            chk.violation(Q11, dm.rel, f.name, f'EVID compared with {sorted(consts)}',
                          'EVID=4 (reset and dose) is not given the dosing compartment', line=f.node.lineno,
                          witness='a dataset with EVID=4 dose records and no CMT column: add_cmt puts them into compartment 0')
    g = dm.functions.get('add_time_after_dose')
    if g is None:
        raise AnalysisError('add_time_after_dose not found')
    cfg = CFG(g.node)
    Q12 = chk.rule('Q12', 'add_time_after_dose: the frame that becomes the new dataset starts as a copy of the INPUT model\'s '
                          'dataset', floor=1)
    par = g.params[0]
    outs = [k.value for c in calls_in(g.node) if isinstance(c.func, ast.Attribute) and c.func.attr == 'replace'
            for k in c.keywords if k.arg == 'dataset']
    if not outs:
        raise AnalysisError('Q12: model.replace(dataset=...) not found in add_time_after_dose')
    for o in outs:
        nm = o.id if isinstance(o, ast.Name) else None
        firsts = sorted([a for a in walk_no_nested(g.node) if isinstance(a, ast.Assign) and isinstance(a.targets[0], ast.Name)
                         and a.targets[0].id == nm], key=lambda a: a.lineno)
        src = unparse(firsts[0].value) if firsts else unparse(o)
        ok = f'{par}.dataset' in src
        chk.instance(Q12, f'add_time_after_dose: result frame `{nm}` starts as `{src[:50]}` (input model: {ok})')
        if not ok:
            chk.violation(Q12, dm.rel, g.name, src[:80],
                          'the result is built from the time-translated temporary model: existing columns (TIME as clock time, '
                          'DATE) come back converted', line=firsts[0].lineno if firsts else g.node.lineno,
                          witness='a dataset with TIME 8:00, 13:15: after add_time_after_dose TIME holds float hours')
    Q13 = chk.rule('Q13', 'add_time_after_dose: expanded additional-dose rows are dropped after TAD has been computed', floor=1)
    drops = [n for n in cfg.nodes.values() if n.kind == 'stmt' and n.ast is not None and "'EXPANDED'" in unparse(n.ast)
             and any(isinstance(u, ast.UnaryOp) and isinstance(u.op, ast.Invert) for u in ast.walk(n.ast))]
    tads = [n for n in cfg.nodes.values() if n.kind == 'stmt' and isinstance(n.ast, ast.Assign)
            and "'TAD'" in unparse(n.ast.targets[0]) and any(isinstance(c, ast.Call) and isinstance(c.func, ast.Attribute)
                                                              and c.func.attr in ('diff', 'cumsum') for c in ast.walk(n.ast.value))]
    if not drops or not tads:
        raise AnalysisError(f'Q13: removal of the EXPANDED rows ({len(drops)}) / computation of TAD ({len(tads)}) not found')
    for d in drops:
        late = [t for t in tads if t.id in cfg.reachable(d.id)]
        chk.instance(Q13, f'add_time_after_dose: `{d.text()[:50]}` comes after the TAD computation: {not late}')
        if late:
            chk.violation(Q13, dm.rel, g.name, f'{d.text()[:50]} before {late[0].text()[:40]}',
                          'the implicit additional doses are gone when TAD is computed: an observation after an additional '
                          'dose counts from the explicit dose record (or gets 0)', line=d.line,
                          witness='ADDL=2 II=12 and an observation at 14 h: TAD 14 (or 0) instead of 2')
