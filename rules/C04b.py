"""C04 (continued): P6 the LCS edit script is minimal and lists, inside a replaced hunk, deletions before insertions
(the record updaters consume it positionally)."""
from __future__ import annotations

import ast

from sa import tables as T
from sa.report import AnalysisError
from sa.srcmodel import unparse, walk_no_nested, dotted, calls_in


_MULT = {}


def has_mult(repo, text):
    """does the text mention the repeat-count reader of ThetaRecord (`_multiple` on the confirmed tree; its present name when
    it was renamed, sa/renames.py) or the grammar node it reads"""
    if 'names' not in _MULT or _MULT.get('repo') is not repo:
        nm = {'_multiple'}
        try:
            cls = repo.module('pharmpy.model.external.nonmem.records.theta_record').classes.get('ThetaRecord')
            f = cls.methods.get('_multiple') if cls is not None else None
            if f is not None:
                nm.add(f.name)
        except Exception:
            pass
        _MULT['names'], _MULT['repo'] = nm, repo
    return any(n in text for n in _MULT['names']) or "subtree('n')" in text


def _yield_op(stmts):
    for s_ in stmts:
        for n in ast.walk(s_):
            if isinstance(n, ast.Yield) and isinstance(n.value, ast.Tuple) and len(n.value.elts) == 2:
                v = n.value.elts[0]
                if isinstance(v, ast.UnaryOp) and isinstance(v.op, ast.USub) and isinstance(v.operand, ast.Constant):
                    return -v.operand.value, unparse(n.value.elts[1])
                if isinstance(v, ast.Constant):
                    return v.value, unparse(n.value.elts[1])
    return None, None


def _recursion_args(stmts, fname):
    for s_ in stmts:
        for n in ast.walk(s_):
            if isinstance(n, ast.Call) and dotted(n.func) == fname:
                return [unparse(a) for a in n.args]
    return None


def run_p6(chk, P6, repo):
    m = repo.module('pharmpy.internals.sequence.lcs')
    f = m.functions.get('_diff')
    if f is None:
        raise AnalysisError('lcs._diff not found')
    c, x, y, i, j = f.params[:5]
    # The decision of _diff is a finite function of (are both indices valid, are the elements equal, how do the two matrix
    # cells compare): the body is folded over each case (assignments, if / elif with comparisons and boolean operators; anything
    # else: undecided) and the branch reached is read off.  c[i+1][j] = LCS without y[j], c[i][j+1] = LCS without x[i].
    from sa import iterspace as IS

    def decide(env):
        def run(stmts):
            for s_ in stmts:
                if isinstance(s_, ast.Expr) and isinstance(s_.value, ast.Constant):
                    continue
                if isinstance(s_, ast.Assign) and len(s_.targets) == 1 and isinstance(s_.targets[0], ast.Name):
                    env[s_.targets[0].id] = IS.ev_x(s_.value, env)
                elif isinstance(s_, ast.If):
                    r_ = run(s_.body if IS.ev_x(s_.test, env) else s_.orelse)
                    if r_ is not None:
                        return r_
                elif isinstance(s_, ast.Return):
                    return ('return', None)
                elif any(isinstance(n, (ast.Yield, ast.YieldFrom)) for n in ast.walk(s_)):
                    return ('body', stmts)
                else:
                    raise IS.Unknown(type(s_).__name__)
            return None
        try:
            return run(f.node.body) or ('fallthrough', None)
        except (IS.Unknown, KeyError, IndexError, TypeError) as e:
            raise AnalysisError(f'P6: the branch decision of _diff cannot be evaluated: {e}')

    def outcome(env):
        kind, body = decide(dict(env))
        if kind != 'body':
            return (None, None, None, None)
        op, val = _yield_op(body)
        return (op, val, _recursion_args(body, '_diff'), body)
    want_rec = {1: [c, x, y, i, f'{j} - 1'], -1: [c, x, y, f'{i} - 1', j], 0: [c, x, y, f'{i} - 1', f'{j} - 1']}
    want_val = {1: f'{y}[{j}]', -1: f'{x}[{i}]', 0: f'{x}[{i}]'}
    base = {x: ['a'], y: ['b'], i: 0, j: 0}
    cases = {'insert_better': dict(base, **{c: [[9, 0], [1, 9]]}), 'delete_better': dict(base, **{c: [[9, 1], [0, 9]]}),
             'tie': dict(base, **{c: [[9, 1], [1, 9]]}),
             'x exhausted': dict(base, **{c: [[9, 9], [9, 9]], i: -1}), 'y exhausted': dict(base, **{c: [[9, 9], [9, 9]], j: -1}),
             'equal elements': {x: ['a'], y: ['a'], i: 0, j: 0, c: [[9, 9], [9, 9]]}}
    res = {}
    seen_bodies = []
    for name, env in cases.items():
        op, val, rec, body = outcome(env)
        res[name] = op
        if body is not None and not any(body is b_ for b_ in seen_bodies):
            seen_bodies.append(body)
            ok = op in (1, -1, 0) and val in (want_val.get(op), f'{y}[{j}]' if op == 0 else None) and rec == want_rec.get(op)
            chk.instance(P6, f'_diff branch reached for "{name}": yields ({op}, {val}) after recursing with {rec}: consistent {ok}')
            if not ok:
                chk.violation(P6, m.rel, '_diff', f'branch for {name}: yield ({op}, {val}), recursion {rec}',
                              'an insertion must consume y[j] (recursion i, j-1) and a deletion x[i] (recursion i-1, j)',
                              line=f.node.lineno, witness='any update that removes one theta and adds another')
    test = next((n for n in ast.walk(f.node) if isinstance(n, ast.Compare) and any(
        isinstance(z, ast.Subscript) and isinstance(z.value, ast.Subscript) for z in ast.walk(n))), f.node)

    def sgn(v):
        return 'none' if v is None else f'{v:+d}'
    chk.instance(P6, f'`{unparse(test)[:60]}`: insertion better -> {sgn(res["insert_better"])}, deletion better -> '
                     f'{sgn(res["delete_better"])}, tie -> {sgn(res["tie"])}; x exhausted -> {sgn(res["x exhausted"])}, '
                     f'y exhausted -> {sgn(res["y exhausted"])}, equal -> {sgn(res["equal elements"])}')
    if res['insert_better'] != 1 or res['delete_better'] != -1:
        chk.violation(P6, m.rel, '_diff', unparse(test),
                      'the branch with the shorter common subsequence is followed: the edit script is not minimal (kept '
                      'elements are reported as removed and added)', line=test.lineno,
                      witness='replace the middle theta of three: the unchanged neighbours are rewritten as well')
    if res['tie'] != 1:
        chk.violation(P6, m.rel, '_diff', unparse(test),
                      'on a tie the deletion is emitted last, so a replaced hunk is listed as +new ... -old; update_thetas / '
                      'reorder_diff and update_random_variable_records advance their record positions per operation and '
                      'expect -old before +new', line=test.lineno,
                      witness='one update_source() that removes a theta and changes the following one, or '
                              'create_joint_distribution on the trailing etas of a multi-value diagonal $OMEGA: values are '
                              'written into the wrong record')
    if res['x exhausted'] != 1 or res['y exhausted'] != -1 or res['equal elements'] != 0:
        chk.violation(P6, m.rel, '_diff', 'boundary / equal branches',
                      f'with x exhausted the rest of y must be inserted (+1), with y exhausted the rest of x deleted (-1), equal '
                      f'elements kept (0); found {sgn(res["x exhausted"])}, {sgn(res["y exhausted"])}, '
                      f'{sgn(res["equal elements"])}', line=f.node.lineno,
                      witness='adding a parameter at the front / removing the last one')
    # matrix recurrence: two nested loops over the (enumerated) sequences, wherever in the module they live
    rec_ok = False
    where = None
    for g in m.functions.values():
        for outer in [n for n in walk_no_nested(g.node) if isinstance(n, ast.For)]:
            for inner in [n for n in ast.walk(outer) if isinstance(n, ast.For) and n is not outer]:
                def idx(loop):
                    if isinstance(loop.target, ast.Tuple) and isinstance(loop.iter, ast.Call) \
                            and dotted(loop.iter.func) == 'enumerate' and isinstance(loop.target.elts[0], ast.Name):
                        return loop.target.elts[0].id
                    if isinstance(loop.target, ast.Name) and isinstance(loop.iter, ast.Call) and dotted(loop.iter.func) == 'range':
                        return loop.target.id
                    return None
                iv, jv = idx(outer), idx(inner)
                if not iv or not jv:
                    continue
                for n in ast.walk(inner):
                    if isinstance(n, ast.If) and isinstance(n.test, ast.Compare) and isinstance(n.test.ops[0], ast.Eq):
                        t_ = [unparse(s_) for s_ in n.body]
                        e_ = [unparse(s_) for s_ in n.orelse]
                        if any(f'[{iv}][{jv}] + 1' in s_ for s_ in t_) and any(
                                'max(' in s_ and f'[{iv} + 1][{jv}]' in s_ and f'[{iv}][{jv} + 1]' in s_ for s_ in e_):
                            rec_ok, where = True, g
    if where is None and not any(isinstance(n, ast.For) and any(isinstance(x, ast.For) and x is not n for x in ast.walk(n))
                                 for g in m.functions.values() for n in walk_no_nested(g.node)):
        raise AnalysisError('P6: the computation of the LCS length matrix was not found in lcs.py')
    chk.instance(P6, f'LCS matrix recurrence ({where.name if where else "?"}): equal -> diagonal + 1, else max(left, up): {rec_ok}')
    if not rec_ok:
        chk.violation(P6, m.rel, 'lcs', 'LCS recurrence', 'the length matrix is not the LCS recurrence',
                      line=1, witness='any edit of a parameter list')


def run_p7(chk, P7, repo):
    """the FIX flag that is compared describes the node that is edited: no FIX-edited node reaches the next comparison"""
    from sa.cfg import CFG
    n_inst = 0
    for modname, clsname in (('pharmpy.model.external.nonmem.records.omega_record', 'OmegaRecord'),
                             ('pharmpy.model.external.nonmem.records.theta_record', 'ThetaRecord')):
        m = repo.module(modname)
        cls = m.classes.get(clsname)
        f = cls.methods.get('update') if cls else None
        if f is None:
            raise AnalysisError(f'{clsname}.update not found')
        # flag variables: x = bool(node.find('FIX')) (or node.find('FIX'))
        flags = {}
        for n in ast.walk(f.node):
            if isinstance(n, ast.Assign) and isinstance(n.targets[0], ast.Name):
                for c in ast.walk(n.value):
                    if isinstance(c, ast.Call) and isinstance(c.func, ast.Attribute) and c.func.attr == 'find' \
                            and c.args and isinstance(c.args[0], ast.Constant) and c.args[0].value == 'FIX' \
                            and isinstance(c.func.value, ast.Name):
                        flags[n.targets[0].id] = c.func.value.id
        if not flags:
            continue
        cfg = CFG(f.node)
        for flag, var in flags.items():
            dirty, kills, tests = set(), set(), set()
            for nd in cfg.nodes.values():
                a = nd.ast
                if nd.kind == 'for' and var in {x.id for x in ast.walk(a.target) if isinstance(x, ast.Name)}:
                    kills.add(nd.id)
                if nd.kind == 'stmt' and isinstance(a, ast.Assign) and any(isinstance(t, ast.Name) and t.id == var
                                                                            for t in a.targets):
                    rhs_names = {x.id for x in ast.walk(a.value) if isinstance(x, ast.Name)}
                    has_fix = any(isinstance(c, ast.Constant) and c.value == 'FIX' for c in ast.walk(a.value))
                    if has_fix and var in rhs_names:
                        dirty.add(nd.id)
                    elif var not in rhs_names:
                        kills.add(nd.id)
                if nd.kind == 'test' and flag in {x.id for x in ast.walk(a) if isinstance(x, ast.Name)} \
                        and isinstance(a, ast.Compare):
                    tests.add(nd.id)
            for d in sorted(dirty):
                n_inst += 1
                reach = set()
                for s_ in cfg.g.successors(d):
                    if s_ not in kills:
                        reach |= cfg.reachable(s_, avoid=kills)
                hit = sorted(reach & tests)
                chk.instance(P7, f'{clsname}.update: `{cfg.nodes[d].text()[:60]}` (FIX edit of `{var}`) reaches a comparison with '
                                 f'`{flag}` without `{var}` being reset: {bool(hit)}')
                if hit:
                    t = cfg.nodes[hit[0]]
                    chk.violation(P7, m.rel, f.qualname, f'{cfg.nodes[d].text()[:70]} ... if {t.text()[5:60]}',
                                  f'`{flag}` was read from the original `{var}`, but the `{var}` compared against it in the next '
                                  f'iteration already carries the FIX edit of the previous one',
                                  line=t.line, path=cfg.describe(cfg.path(d, hit[0], avoid=kills) or [])[-8:],
                                  witness='$OMEGA (0.1)x3 with only the first omega fixed: written (0.1 FIX) (0.1 FIX) (0.1 FIX); '
                                          '(0.1 FIX)x3 with the first unfixed loses FIX on all three')
    if n_inst < 2:
        raise AnalysisError(f'P7: only {n_inst} FIX edits found')


def run_p8(chk, P8, repo):
    """the running eta number counts the distributions of the new model only"""
    from sa import lints
    um = repo.module('pharmpy.model.external.nonmem.update')
    f = um.functions.get('update_random_variable_records')
    if f is None:
        raise AnalysisError('update_random_variable_records not found')
    loop = next((n for n in walk_no_nested(f.node) if isinstance(n, ast.For) and isinstance(n.target, ast.Tuple)
                 and any(isinstance(x, ast.AugAssign) and unparse(x.target) == 'eta_number' for x in ast.walk(n))), None)
    if loop is None:
        raise AnalysisError('P8: loop over the diff with the eta counter not found')
    opvar = loop.target.elts[0].id

    def target(s_):
        return isinstance(s_, ast.AugAssign) and unparse(s_.target) == 'eta_number'
    want = {1: True, 0: True, -1: False}
    for op, w in want.items():
        may, must = lints.exec_under(loop.body, {opvar: op}, target)
        ok = (must if w else not may)
        chk.instance(P8, f'op {op:+d}: eta_number advanced may={may} must={must} (wanted {"always" if w else "never"})')
        if not ok:
            chk.violation(P8, um.rel, f.qualname, f'op {op:+d}: eta_number += ... may={may} must={must}',
                          'eta_number is the position of the next random variable in the NEW model; it must advance for added '
                          'and kept distributions and must not advance for removed ones (create_omega_single/block decide '
                          'with it whether a name comment is needed)', line=loop.lineno,
                          witness='remove two etas that precede a BLOCK(2) with default names, then split that block: the '
                                  'new records lack their name comments and are re-read as OMEGA_1_1/OMEGA_2_2')


def run_p9(chk, P9, repo):
    """record editing: filtering the children of a record never drops a line break"""
    from sa import lints
    n = 0
    for modname, clsname in (('pharmpy.model.external.nonmem.records.omega_record', 'OmegaRecord'),
                             ('pharmpy.model.external.nonmem.records.theta_record', 'ThetaRecord')):
        m = repo.module(modname)
        cls = m.classes.get(clsname)
        if cls is None:
            raise AnalysisError(f'{clsname} not found')
        for mname, f in cls.methods.items():
            for L in [x for x in walk_no_nested(f.node) if isinstance(x, ast.For) and isinstance(x.target, ast.Name)
                      and unparse(x.iter) in ('self.root.children', 'self.root.children[:]')]:
                v = L.target.id

                def target(s_, v=v):
                    return isinstance(s_, ast.Expr) and isinstance(s_.value, ast.Call) \
                        and isinstance(s_.value.func, ast.Attribute) and s_.value.func.attr == 'append' \
                        and len(s_.value.args) == 1 and isinstance(s_.value.args[0], ast.Name) and s_.value.args[0].id == v
                if not any(target(s_) for s_ in ast.walk(L)):
                    continue
                n += 1
                may, must = lints.exec_under(L.body, {f'{v}.rule': 'NEWLINE'}, target)
                chk.instance(P9, f'{clsname}.{mname}: children filtered into a new record; a NEWLINE child is always kept: {must}')
                if not must:
                    chk.violation(P9, m.rel, f.qualname, f'for {v} in self.root.children: ... append({v})',
                                  'a line break that follows a dropped item can be dropped with it: the record runs into the next '
                                  'one', line=L.lineno,
                                  witness="'$OMEGA 0.1 0.2' followed by $SIGMA, remove the second eta: '$OMEGA 0.1 $SIGMA 0.1' "
                                          "cannot be parsed")
    if n < 2:
        raise AnalysisError(f'P9: only {n} child filters found')


def run_p10_p11(chk, repo):
    P10 = chk.rule('P10', 'new record text: case conversion is applied to numbers only, never to text that contains a parameter '
                          'name', floor=1)
    P11 = chk.rule('P11', 'the "all members of (value)xn equal?" test looks at every per-member list that was collected (values '
                          'and FIX flags)', floor=1)
    um = repo.module('pharmpy.model.external.nonmem.update')
    n10 = 0
    for fname, f in um.functions.items():
        if not fname.startswith(('create_', 'update_')):
            continue
        # variables whose text contains a `.name` interpolation (flow-insensitive)
        named = set()
        changed = True
        while changed:
            changed = False
            for n in walk_no_nested(f.node):
                tgt, val = None, None
                if isinstance(n, ast.Assign) and isinstance(n.targets[0], ast.Name):
                    tgt, val = n.targets[0].id, n.value
                elif isinstance(n, ast.AugAssign) and isinstance(n.target, ast.Name):
                    tgt, val = n.target.id, n.value
                if tgt is None or tgt in named:
                    continue
                has_name = any(isinstance(a, ast.Attribute) and a.attr == 'name' for a in ast.walk(val)) \
                    or any(isinstance(x, ast.Name) and x.id in named for x in ast.walk(val))
                # a value that is itself upper-cased text of a number is not a name carrier
                if has_name:
                    named.add(tgt)
                    changed = True
        for c in calls_in(f.node):
            if isinstance(c.func, ast.Attribute) and c.func.attr in ('upper', 'lower', 'title', 'capitalize'):
                n10 += 1
                recv = c.func.value
                bad = any(isinstance(a, ast.Attribute) and a.attr == 'name' for a in ast.walk(recv)) \
                    or any(isinstance(x, ast.Name) and x.id in named for x in ast.walk(recv))
                chk.instance(P10, f'{fname}: `{unparse(c)[:60]}` applied to text without a parameter name: {not bad}')
                if bad:
                    chk.violation(P10, um.rel, fname, unparse(c)[:100],
                                  'the case of the name comment is changed together with the number: the parameter is re-read '
                                  'under another name', line=c.lineno,
                                  witness="an omega named iiv_cl and create_joint_distribution: the new BLOCK record says "
                                          "'; IIV_CL'")
    if n10 < 1:
        raise AnalysisError(f'P10: no case conversion found in the create_*/update_* functions')
    om = repo.module('pharmpy.model.external.nonmem.records.omega_record')
    f = om.classes['OmegaRecord'].methods.get('update')
    n11 = 0
    # Which attributes of the new parameters (`.init`, `.fix`) flow into the "are all members of the (value)xn repeat equal?"
    # test: a small flow analysis over the locals of update (lists filled by append or built by comprehensions, tuples tracked
    # by position), so that it does not matter how the per-member values are collected.
    ATTRS = ('init', 'fix')
    fn = f.node

    def flat(c):
        if isinstance(c, list):
            out = set()
            for x in c:
                out |= flat(x)
            return out
        return set(c)

    def bind(tgt, c, env):
        if isinstance(tgt, ast.Name):
            env[tgt.id] = c
        elif isinstance(tgt, (ast.Tuple, ast.List)):
            for k, t in enumerate(tgt.elts):
                bind(t, c[k] if isinstance(c, list) and k < len(c) else flat(c), env)

    def attrs_of(e, env, depth):
        if isinstance(e, ast.Tuple):
            return [attrs_of(x, env, depth) for x in e.elts]
        out = set()
        for x in ast.walk(e):
            if isinstance(x, ast.Attribute) and x.attr in ATTRS and not (isinstance(x.value, ast.Name) and x.value.id == 'self'):
                out.add(x.attr)
            elif isinstance(x, ast.Name) and isinstance(x.ctx, ast.Load):
                if x.id in env:
                    out |= flat(env[x.id])
                elif depth > 0:
                    out |= flat(carry(x.id, depth - 1))
        return out

    def comp_carry(v, depth):
        env = {}
        for g in v.generators:
            src = attrs_of(g.iter, env, depth) if not isinstance(g.iter, ast.Name) else carry(g.iter.id, depth - 1)
            bind(g.target, src, env)
        return attrs_of(v.elt, env, depth)

    def carry(name, depth=6):
        if depth <= 0:
            return set()
        res = None

        def merge(c):
            nonlocal res
            if res is None:
                res = c
            elif isinstance(res, list) and isinstance(c, list) and len(res) == len(c):
                res = [flat(a_) | flat(b_) for a_, b_ in zip(res, c)]
            else:
                res = flat(res) | flat(c)
        for st in ast.walk(fn):
            if isinstance(st, ast.Assign) and len(st.targets) == 1 and isinstance(st.targets[0], ast.Name) \
                    and st.targets[0].id == name:
                v = st.value
                if isinstance(v, (ast.ListComp, ast.GeneratorExp)):
                    merge(comp_carry(v, depth))
                elif isinstance(v, (ast.List, ast.Tuple)) and not v.elts:
                    continue
                else:
                    merge(attrs_of(v, {}, depth - 1))
            elif isinstance(st, ast.For):
                # loop targets bound from what the iterable carries
                if name in {x.id for x in ast.walk(st.target) if isinstance(x, ast.Name)}:
                    env = {}
                    it = st.iter
                    if isinstance(it, ast.Call) and dotted(it.func) == 'enumerate' and it.args \
                            and isinstance(st.target, ast.Tuple) and len(st.target.elts) == 2:
                        src = carry(it.args[0].id, depth - 1) if isinstance(it.args[0], ast.Name) else attrs_of(it.args[0], {}, depth - 1)
                        bind(st.target.elts[1], src, env)
                    else:
                        src = carry(it.id, depth - 1) if isinstance(it, ast.Name) else attrs_of(it, {}, depth - 1)
                        bind(st.target, src, env)
                    if name in env:
                        merge(env[name])
            elif isinstance(st, ast.Call) and isinstance(st.func, ast.Attribute) and st.func.attr in ('append', 'extend') \
                    and isinstance(st.func.value, ast.Name) and st.func.value.id == name and st.args:
                merge(attrs_of(st.args[0], {}, depth - 1))
        return res if res is not None else set()
    in_loops = {id(x) for L in ast.walk(fn) if isinstance(L, ast.For) for x in ast.walk(L) if isinstance(x, ast.If)}
    for I in [n for n in ast.walk(fn) if isinstance(n, ast.If)]:
        t = unparse(I.test)
        if not ('.count(' in t or 'set(' in t or 'all(' in t) or id(I) not in in_loops:
            continue            # (the per-item decision sits in the loop over the items of the record)
        tnames = {x.id for x in ast.walk(I.test) if isinstance(x, ast.Name)}
        per_member = {nm for nm in tnames if any(
            (isinstance(st, ast.Call) and isinstance(st.func, ast.Attribute) and st.func.attr == 'append'
             and isinstance(st.func.value, ast.Name) and st.func.value.id == nm)
            or (isinstance(st, ast.Assign) and isinstance(st.targets[0], ast.Name) and st.targets[0].id == nm
                and isinstance(st.value, (ast.ListComp, ast.GeneratorExp))) for st in ast.walk(fn))}
        if not per_member:
            continue
        got = set()
        for nm in tnames:
            got |= flat(carry(nm))
        if not got:
            continue
        n11 += 1
        ok = set(ATTRS) <= got
        chk.instance(P11, f'OmegaRecord.update: `if {t[:70]}` compares {sorted(got)} of the members (per-member collections '
                          f'{sorted(per_member)}): {ok}')
        if not ok:
            chk.violation(P11, om.rel, f.qualname, f'if {t[:90]}',
                          f'the repeat is kept as (value)xn although {sorted(set(ATTRS) - got)} may differ between its members',
                          line=I.lineno,
                          witness="$OMEGA 0.25 (0.16)x3, fix only OMEGA_3_3: the text is unchanged and FIX is lost")
    if n11 == 0:
        raise AnalysisError('P11: per-member collection followed by an equality test not found in OmegaRecord.update')


def theta_cursor(chk, rule, repo):
    """a theta written (low,init)xN stands for N parameters: the cursor into the record's parameters must advance by N"""
    tm = repo.module('pharmpy.model.external.nonmem.records.theta_record')
    cls = tm.classes.get('ThetaRecord')
    f = cls.methods.get('update') if cls else None
    if f is None:
        raise AnalysisError('ThetaRecord.update not found')
    params = [p for p in f.params if p != 'self']
    if not params:
        raise AnalysisError('ThetaRecord.update: parameter list argument not found')
    plist = params[0]
    # the code that consumes the parameters: update itself, its nested functions and module helpers it hands them to
    scope = [f.node] + [g.node for g in tm.functions.values() if g.cls is None and g.parent is None
                        and any(isinstance(c, ast.Call) and dotted(c.func) == g.name for c in ast.walk(f.node))]
    # ... and the methods of the record it calls through self
    scope += [g.node for nm, g in cls.methods.items() if g is not f
              and any(isinstance(c, ast.Call) and isinstance(c.func, ast.Attribute) and c.func.attr == nm
                      and isinstance(c.func.value, ast.Name) and c.func.value.id in ('self', 'cls') for c in ast.walk(f.node))]
    by_name = {fn_.name: fn_ for fn_ in scope}

    def calls_behind(fn_, name, depth=2):
        # names of the functions called in computing local `name` of fn_, also through `a, name = helper(..)` where the
        # helper returns a tuple
        out = set()
        for s_ in ast.walk(fn_):
            if not isinstance(s_, ast.Assign):
                continue
            t = s_.targets[0]
            if isinstance(t, ast.Name) and t.id == name:
                out |= {dotted(c.func) or '' for c in ast.walk(s_.value) if isinstance(c, ast.Call)}
            elif isinstance(t, ast.Tuple) and isinstance(s_.value, ast.Call) and depth > 0:
                idx = next((i for i, e in enumerate(t.elts) if isinstance(e, ast.Name) and e.id == name), None)
                cn = (dotted(s_.value.func) or '').split('.')[-1]
                if idx is not None and cn in by_name:
                    g_ = by_name[cn]
                    for r in ast.walk(g_):
                        if isinstance(r, ast.Return) and isinstance(r.value, ast.Tuple) and idx < len(r.value.elts):
                            e = r.value.elts[idx]
                            out |= {dotted(c.func) or '' for c in ast.walk(e) if isinstance(c, ast.Call)}
                            for x in ast.walk(e):
                                if isinstance(x, ast.Name):
                                    out |= calls_behind(g_, x.id, depth - 1)
        return out
    uses = [s_ for fn_ in scope for s_ in ast.walk(fn_) if isinstance(s_, ast.Subscript) and isinstance(s_.value, ast.Name)
            and s_.value.id == plist and isinstance(s_.ctx, ast.Load)]
    one_by_one = [c for fn_ in scope for c in ast.walk(fn_) if isinstance(c, ast.Call) and dotted(c.func) in ('next', 'iter')
                  and c.args and any(isinstance(x, ast.Name) and x.id == plist for x in ast.walk(c.args[0]))]
    one_by_one += [l_ for fn_ in scope for l_ in ast.walk(fn_) if isinstance(l_, ast.For)
                   and any(isinstance(x, ast.Name) and x.id == plist for x in ast.walk(l_.iter))
                   and not any(isinstance(c, ast.Call) and has_mult(repo, dotted(c.func) or '') for c in ast.walk(l_))]
    if not uses and not one_by_one:
        raise AnalysisError('ThetaRecord.update: consumption of the parameters not recognised')
    ok = False
    desc = 'parameters taken one per theta node (iterator)'
    for u in uses:
        cursors = {x.id for x in ast.walk(u.slice) if isinstance(x, ast.Name)}
        for fn_ in scope:
            for a in ast.walk(fn_):
                if isinstance(a, ast.AugAssign) and isinstance(a.op, ast.Add) and isinstance(a.target, ast.Name) \
                        and a.target.id in cursors:
                    names_ = {x.id for x in ast.walk(a.value) if isinstance(x, ast.Name)}
                    calls_ = {dotted(c.func) or '' for c in ast.walk(a.value) if isinstance(c, ast.Call)}
                    for nm_ in names_:
                        calls_ |= calls_behind(fn_, nm_)
                    desc = f'{unparse(u)} with {unparse(a)}'
                    if any(has_mult(repo, c) for c in calls_):
                        ok = True
    chk.instance(rule, f'ThetaRecord.update: {desc}: advances by the repeat count: {ok}')
    if not ok:
        chk.violation(rule, tm.rel, f.qualname, desc,
                      'a theta written (low,init)xN stands for N parameters; the cursor into the parameters advances by one '
                      'per node, so every theta after an xN item is updated from the wrong parameter', line=f.node.lineno,
                      witness='$THETA (0,0.5)x3 (1,7,20) -2.25: update_source of the unmodified model rewrites the last two '
                              'thetas with the values of the replicates')


def run_p13_p15(chk, repo):
    """P13 writer scale conversion order, P14 old thetas classified with the old random variables, P15 comments of a
    removed diagonal item go with it"""
    from sa.cfg import CFG
    from sa import lints, reach
    om = repo.module('pharmpy.model.external.nonmem.records.omega_record')
    cls = om.classes.get('OmegaRecord')
    up = cls.methods.get('update') if cls else None
    rm = cls.methods.get('remove') if cls else None
    if up is None or rm is None:
        raise AnalysisError('OmegaRecord.update / remove not found')
    P13 = chk.rule('P13', 'OmegaRecord.update (BLOCK): covariances are divided by the standard deviations taken from the '
                          'variances, i.e. before the diagonal is converted to SD (or from a copy of it)', floor=1)
    cfg = CFG(up.node)

    def is_sd_fill(n):
        return n.kind == 'stmt' and n.ast is not None and any(
            isinstance(c, ast.Call) and (dotted(c.func) or '').endswith('fill_diagonal') for c in ast.walk(n.ast)) \
            and ('** 0.5' in unparse(n.ast) or 'sqrt' in unparse(n.ast))
    fills = [n for n in cfg.nodes.values() if is_sd_fill(n)]
    divs = [n for n in cfg.nodes.values() if n.kind == 'stmt' and isinstance(n.ast, ast.Assign)
            and isinstance(n.ast.targets[0], ast.Subscript) and isinstance(n.ast.value, ast.BinOp)
            and any(isinstance(b, ast.BinOp) and isinstance(b.op, ast.Div) for b in ast.walk(n.ast.value))
            and 'sqrt' in unparse(n.ast.value)]
    if not fills or not divs:
        raise AnalysisError('P13: SD conversion / correlation division of OmegaRecord.update not found')
    for d in divs:
        # the diagonal it reads: A[i, i] directly, or a local bound to A.diagonal() (a view unless copied)
        mat = unparse(d.ast.targets[0].value)
        reads_view = False
        for x in ast.walk(d.ast.value):
            if isinstance(x, ast.Subscript) and unparse(x.value) == mat:
                reads_view = True
            if isinstance(x, ast.Name):
                vs = reach.values(cfg, d.id, x.id) or []
                for _dd, v in vs:
                    if isinstance(v, ast.Call) and unparse(v.func) == f'{mat}.diagonal':
                        reads_view = True
        after = [f_ for f_ in fills if d.id in cfg.reachable(f_.id)]
        ok = not (reads_view and after)
        chk.instance(P13, f'`{d.text()[:70]}` reads the diagonal of {mat} (view: {reads_view}); SD conversion before it: {bool(after)}')
        if not ok:
            chk.violation(P13, om.rel, up.qualname, f'{after[0].text()[:50]} ... {d.text()[:60]}',
                          'the diagonal already holds standard deviations when the covariances are divided by sqrt(diagonal): '
                          'correlations are divided by sqrt(sd_i*sd_j) instead of sd_i*sd_j', line=d.line,
                          witness='$OMEGA BLOCK(2) STANDARD CORRELATION: any update_source() writes other correlations than '
                                  'the model has')
    # ------------------------------------------------------------------ P14
    P14 = chk.rule('P14', 'update_thetas: the old parameters are separated from variance parameters with the OLD random '
                          'variables, the new ones with the new', floor=2)
    um = repo.module('pharmpy.model.external.nonmem.update')
    ut = um.functions.get('update_thetas')
    if ut is None:
        raise AnalysisError('update_thetas not found')
    ucfg = CFG(ut.node)
    comps = [c for c in ast.walk(ut.node) if isinstance(c, (ast.ListComp, ast.GeneratorExp)) and len(c.generators) == 1
             and isinstance(c.generators[0].iter, ast.Name) and c.generators[0].iter.id in ut.params and c.generators[0].ifs]
    if len(comps) < 2:
        raise AnalysisError('P14: filters over the old / new parameters not found in update_thetas')
    for c in comps:
        which = c.generators[0].iter.id
        nid = reach.node_containing(ucfg, c)
        txt = ' '.join(unparse(reach.expand_expr(ucfg, nid, i)) if nid is not None else unparse(i) for i in c.generators[0].ifs)
        uses_old = 'old_random_variables' in txt
        want_old = which.startswith('old')
        ok = uses_old == want_old and 'random_variables' in txt
        chk.instance(P14, f'[.. for p in {which} if {txt[:70]}]: uses the {"old" if uses_old else "current"} random variables: {ok}')
        if not ok:
            chk.violation(P14, um.rel, ut.qualname, f'filter over `{which}`: {txt[:100]}',
                          f'the {"old" if want_old else "new"} parameters must be classified with the '
                          f'{"old" if want_old else "new"} random variables: a variance parameter whose eta was removed in this '
                          f'update otherwise counts as a removed theta and shifts the record bookkeeping', line=c.lineno,
                          witness='add_covariate_effect (adds a theta) then remove_iiv in one session: IndexError in '
                                  'update_thetas, or the new $THETA record disappears')
    # ------------------------------------------------------------------ P15
    P15 = chk.rule('P15', 'OmegaRecord.remove (DIAGONAL): whether a comment / blank node is kept depends on the item it '
                          'follows (state carried from the last diag_item)', floor=1)
    loops = [L for L in ast.walk(rm.node) if isinstance(L, ast.For) and 'children' in unparse(L.iter)
             and any(isinstance(c, ast.Constant) and c.value == 'diag_item' for c in ast.walk(L))]
    if not loops:
        raise AnalysisError('P15: loop over the children in the DIAGONAL branch of OmegaRecord.remove not found')
    for L in loops:
        var = L.target.id if isinstance(L.target, ast.Name) else None
        if var is None:
            continue

        def is_keep(s_):
            return isinstance(s_, ast.Expr) and isinstance(s_.value, ast.Call) and isinstance(s_.value.func, ast.Attribute) \
                and s_.value.func.attr == 'append' and s_.value.args and unparse(s_.value.args[0]) == var
        may, must = lints.exec_under(L.body, {f'{var}.rule': 'COMMENT'}, is_keep)
        chk.instance(P15, f'OmegaRecord.remove: a COMMENT node is appended: may={may}, on every path={must}')
        if must:
            chk.violation(P15, om.rel, rm.qualname, f'for {var} in {unparse(L.iter)}: comment nodes always kept',
                          'the `; NAME` comment of a removed eta stays in the record: the preceding unnamed variance adopts the '
                          'name of the removed parameter when the record is read again', line=L.lineno,
                          witness='$OMEGA 0.1 0.2 ; IIV_V   remove the second eta: OMEGA_1_1 re-reads as IIV_V')
        if not may:
            raise AnalysisError('P15: the keep list of OmegaRecord.remove is never appended to for a comment node')


def run_p16(chk, repo):
    """update_random_variable_records collects the edits of a multi-value diagonal record in accumulators and flushes them at
    the record boundary: every accumulator read by the flush must be emptied whenever the record index advances there"""
    P16 = chk.rule('P16', 'update_random_variable_records: at the record boundary every per-record accumulator is reset on '
                          'every path (unconditionally, next to the advance of the record index)', floor=2)
    um = repo.module('pharmpy.model.external.nonmem.update')
    f = um.functions.get('update_random_variable_records')
    if f is None:
        raise AnalysisError('update_random_variable_records not found')
    loops = [L for L in walk_no_nested(f.node) if isinstance(L, ast.For)]
    n = 0
    for L in loops:
        # accumulators: lists appended to in the loop; plain locals (`diag_remove`) or fields of a local record (`diag.remove`)
        def recv(c):
            v = c.func.value
            if isinstance(v, ast.Name) or (isinstance(v, ast.Attribute) and isinstance(v.value, ast.Name)):
                return unparse(v)
            return None
        appended = {recv(c) for c in ast.walk(L) if isinstance(c, ast.Call) and isinstance(c.func, ast.Attribute)
                    and c.func.attr == 'append'} - {None}
        for I in [x for x in L.body if isinstance(x, ast.If)]:
            adv = [s_ for s_ in I.body if isinstance(s_, ast.AugAssign) and isinstance(s_.op, ast.Add)
                   and isinstance(s_.target, ast.Name)]
            if not adv:
                continue
            read = {unparse(x) for s_ in I.body for x in ast.walk(s_) if isinstance(x, (ast.Name, ast.Attribute))
                    and isinstance(getattr(x, 'ctx', None), ast.Load)}
            accs = sorted(a for a in appended & read
                          if not any(isinstance(c, ast.Call) and isinstance(c.func, ast.Attribute) and c.func.attr == 'append'
                                     and recv(c) == a for s_ in I.body for c in ast.walk(s_)))
            if not accs:
                continue

            def resets(stmt, a):
                # a = [] / a = list() / a, b = [], 0 / a.clear() / (for `rec.field`) rec = Fresh() as a top-level statement of the
                # flush block
                def empty(v):
                    return isinstance(v, (ast.List, ast.Call)) and not getattr(v, 'elts', None) and not getattr(v, 'args', None) \
                        and not getattr(v, 'keywords', None)
                if isinstance(stmt, ast.Assign):
                    for t in stmt.targets:
                        if unparse(t) == a and empty(stmt.value):
                            return True
                        if '.' in a and isinstance(t, ast.Name) and t.id == a.split('.')[0] and isinstance(stmt.value, ast.Call) \
                                and empty(stmt.value):
                            return True           # the record that holds the accumulator is replaced by a fresh one
                        if isinstance(t, ast.Tuple) and isinstance(stmt.value, ast.Tuple) and len(t.elts) == len(stmt.value.elts):
                            for te, ve in zip(t.elts, stmt.value.elts):
                                if unparse(te) == a and isinstance(ve, ast.List) and not ve.elts:
                                    return True
                if isinstance(stmt, ast.Expr) and isinstance(stmt.value, ast.Call) and isinstance(stmt.value.func, ast.Attribute) \
                        and stmt.value.func.attr == 'clear' and unparse(stmt.value.func.value) == a:
                    return True
                return False
            for a in accs:
                n += 1
                ok = any(resets(s_, a) for s_ in I.body)
                chk.instance(P16, f'update_random_variable_records: `{a}` is emptied unconditionally where `{unparse(adv[0])}` '
                                  f'closes the record: {ok}')
                if not ok:
                    chk.violation(P16, um.rel, f.name, f'{a} not reset with {unparse(adv[0])}',
                                  f'the edits collected in `{a}` for one multi-value record survive into the next one (on some '
                                  f'path): its values are removed / rewritten from the wrong parameters', line=I.lineno,
                                  witness='$OMEGA 0.09 0.04 followed by $OMEGA 0.25 0.16: update_source of the unmodified model '
                                          'turns the second record into $OMEGA 0.09 0.04; or joining the two etas of the first '
                                          'record removes values of the second')
    if n == 0:
        raise AnalysisError('P16: flush block of update_random_variable_records not recognised')


def run_p17_p18(chk, repo):
    """P17: the parentheses of a theta are removed only when it is not a repeat (value)xN; P18: whether a value of a record
    changed is decided by exact comparison of the written number with the new one (never with a tolerance)"""
    from sa.cfg import CFG
    from sa import guards as G_
    P17 = chk.rule('P17', 'ThetaRecord.update: remove_parentheses only under a test that the repeat count is 1 '
                          '((init)xN needs its parentheses)', floor=1)
    tm = repo.module('pharmpy.model.external.nonmem.records.theta_record')
    cls = tm.classes.get('ThetaRecord')
    n17 = 0
    # the code that rewrites one theta may be the method, a closure of it, a private method or a module-level function
    for f in list(dict.values(tm.functions)):
        mult = {a.targets[0].id for a in ast.walk(f.node) if isinstance(a, ast.Assign) and isinstance(a.targets[0], ast.Name)
                and has_mult(repo, unparse(a.value))}
        calls = [c for c in calls_in(f.node) if dotted(c.func) == 'remove_parentheses'
                 and not any(c is x for g_ in ast.walk(f.node) if isinstance(g_, ast.FunctionDef) and g_ is not f.node
                             for x in ast.walk(g_))]
        if not calls or f.name == 'remove_parentheses':
            continue
        cfg = CFG(f.node)

        def single(e, mult=mult):
            if isinstance(e, ast.Compare) and len(e.ops) == 1 and isinstance(e.ops[0], (ast.Eq, ast.NotEq)) \
                    and isinstance(e.left, ast.Name) and e.left.id in mult and isinstance(e.comparators[0], ast.Constant) \
                    and e.comparators[0].value == 1:
                return isinstance(e.ops[0], ast.Eq)
            return None
        for c in calls:
            n17 += 1
            from sa import reach as _reach
            at = _reach.node_containing(cfg, c)
            ok = at is not None and bool(G_.guarded(cfg, at, single))
            chk.instance(P17, f'{f.qualname}: `{unparse(c)[:50]}` only when the repeat count is 1: {ok}')
            if not ok:
                chk.violation(P17, tm.rel, f.qualname, unparse(c)[:80],
                              'a repeat (low,init)xN whose bounds are removed is written as initxN, which is read as one theta '
                              'followed by an option', line=c.lineno,
                              witness='$THETA (0,1)x2, remove the lower bounds: the record becomes 1x2 and re-reads as one theta')
    if n17 == 0:
        raise AnalysisError('P17: remove_parentheses is not called from ThetaRecord.update')
    P18 = chk.rule('P18', 'record writers: "did the written value change?" is an exact comparison of eval_token(..) with the new '
                          'value', floor=3)
    n18 = 0
    for modname in ('pharmpy.model.external.nonmem.records.theta_record', 'pharmpy.model.external.nonmem.records.omega_record'):
        m = repo.module(modname)
        for f in m.functions.values():
            for c in ast.walk(f.node):
                if isinstance(c, ast.Compare) and any(isinstance(x, ast.Call) and dotted(x.func) == 'eval_token' for x in ast.walk(c)) \
                        and isinstance(c.ops[0], (ast.Eq, ast.NotEq)):
                    n18 += 1
                    chk.instance(P18, f'{f.qualname}: `{unparse(c)[:60]}` exact')
                if isinstance(c, ast.Call) and (dotted(c.func) or '').split('.')[-1] in ('isclose', 'allclose', 'approx') \
                        and any(isinstance(x, ast.Call) and dotted(x.func) == 'eval_token' for x in ast.walk(c)):
                    n18 += 1
                    chk.instance(P18, f'{f.qualname}: `{unparse(c)[:60]}` tolerance')
                    chk.violation(P18, m.rel, f.qualname, unparse(c)[:90],
                                  'an edit smaller than the tolerance is not written back: the regenerated record keeps the old '
                                  'number although the model holds the new one', line=c.lineno,
                                  witness='set_initial_estimates with 0.2 -> 0.200001 (or 1E-9 -> 5E-9) on a BLOCK record: the text '
                                          'is unchanged and re-reads as the old value')
    if n18 == 0:
        raise AnalysisError('P18: no comparison of eval_token(..) found in the record writers')


def run_p19_p20(chk, repo):
    """P19: the writer of a new $OMEGA/$SIGMA BLOCK(n) lists the lower triangle row by row (the order NM-TRAN reads, and the
    order the reader side of A12 places them): the iteration space of its loop nest is enumerated for n = 3.
    P20: in the writers of new records nothing but the end of the line follows the `; name` comment - an option written after
    it (FIX) would be part of the comment"""
    import copy
    from sa import iterspace as IS
    from sa.cfg import CFG
    um = repo.module('pharmpy.model.external.nonmem.update')
    P19 = chk.rule('P19', 'create_omega_block: the elements cm[row, col] are written row by row of the lower triangle', floor=1)
    f = um.functions.get('create_omega_block')
    if f is None:
        raise AnalysisError('P19: create_omega_block not found')
    n19 = 0
    for sub in [x for x in ast.walk(f.node) if isinstance(x, ast.Subscript) and isinstance(x.slice, ast.Tuple)
                and len(x.slice.elts) == 2 and all(isinstance(e, ast.Name) for e in x.slice.elts)]:
        a, b = (e.id for e in sub.slice.elts)
        nest, cur = [], sub
        loops = [l_ for l_ in ast.walk(f.node) if isinstance(l_, ast.For)]
        inside = [l_ for l_ in loops if any(x is sub for x in ast.walk(l_))]
        inside.sort(key=lambda l_: sum(1 for _ in ast.walk(l_)), reverse=True)       # outermost first
        bound = set()
        for l_ in inside:
            tn = {x.id for x in ast.walk(l_.target) if isinstance(x, ast.Name)}
            nest.append(l_)
            bound |= tn
        if not ({a, b} <= bound):
            continue
        # drop outer loops that bind neither index
        while nest and not ({x.id for x in ast.walk(nest[0].target) if isinstance(x, ast.Name)} & {a, b}):
            nest.pop(0)

        class Size(ast.NodeTransformer):
            # the dimension of the block, however it is spelled (cm.rows, cm.shape[0], len(names)), is 3
            def visit_Attribute(self, n_):
                return ast.Constant(value=3)

            def visit_Subscript(self, n_):
                return ast.Constant(value=3) if not any(isinstance(x, ast.Name) and x.id in bound for x in ast.walk(n_)) \
                    else self.generic_visit(n_)

            def visit_Call(self, n_):
                if isinstance(n_.func, ast.Name) and n_.func.id == 'len':
                    return ast.Constant(value=3)
                n_.args = [self.visit(x) for x in n_.args]
                return n_
        nest2 = []
        for l_ in nest:
            l2 = copy.copy(l_)
            l2.iter = Size().visit(copy.deepcopy(l_.iter))
            nest2.append(l2)
        free = {x.id for l_ in nest2 for x in ast.walk(l_.iter) if isinstance(x, ast.Name)} - bound - set(IS.FUNCS)
        try:
            envs = IS.iterations(nest2, {nm: 3 for nm in free})
        except IS.Unknown as e:
            raise AnalysisError(f'P19: iteration space of the loop over {unparse(sub)} not evaluable ({e})')
        seq = [(e_[a], e_[b]) for e_ in envs]
        want = [(i, j) for i in range(3) for j in range(i + 1)]
        n19 += 1
        ok = seq == want
        chk.instance(P19, f'create_omega_block: {unparse(sub)} visited in the order {seq} for n=3: row-wise lower triangle {ok}')
        if not ok:
            chk.violation(P19, um.rel, f.qualname, f'for {unparse(nest[0].target)} in {unparse(nest[0].iter)[:60]}: {unparse(sub)}',
                          f'NM-TRAN reads a BLOCK row by row of the lower triangle ({want}); the values are written in the '
                          f'order {seq}', line=nest[0].lineno,
                          witness='create_joint_distribution over three etas with unequal variances: the written BLOCK(3) reads '
                                  'back with a covariance on the diagonal; for n <= 2 the orders coincide')
        break
    if n19 == 0:
        raise AnalysisError('P19: no cm[row, col] access inside a loop nest found in create_omega_block')

    P20 = chk.rule('P20', 'writers of new records: after the `; name` comment only the end of the line is appended', floor=2)
    n20 = 0
    for fname in ('create_theta_record', 'create_omega_single', 'create_omega_block'):
        g = um.functions.get(fname)
        if g is None:
            raise AnalysisError(f'P20: {fname} not found')
        cfg = CFG(g.node)

        def piece(nd):
            """(accumulator, appended expression) for `acc += e` / `acc.append(e)` / `acc = acc + e`"""
            a_ = nd.ast
            if nd.kind != 'stmt' or a_ is None:
                return None
            if isinstance(a_, ast.AugAssign) and isinstance(a_.op, ast.Add) and isinstance(a_.target, ast.Name):
                return a_.target.id, a_.value
            if isinstance(a_, ast.Expr) and isinstance(a_.value, ast.Call) and isinstance(a_.value.func, ast.Attribute) \
                    and a_.value.func.attr == 'append' and isinstance(a_.value.func.value, ast.Name) and a_.value.args:
                return a_.value.func.value.id, a_.value.args[0]
            if isinstance(a_, ast.Assign) and len(a_.targets) == 1 and isinstance(a_.targets[0], ast.Name) \
                    and any(isinstance(x, ast.Name) and x.id == a_.targets[0].id for x in ast.walk(a_.value)):
                return a_.targets[0].id, a_.value
            return None

        def literal(e):
            return ''.join(str(c.value) for c in ast.walk(e) if isinstance(c, ast.Constant) and isinstance(c.value, str))
        pieces = {nd.id: piece(nd) for nd in cfg.nodes.values()}
        for nid, pc in pieces.items():
            if pc is None or ';' not in literal(pc[1]) or '\n' in literal(pc[1]).split(';')[-1]:
                continue
            n20 += 1
            acc = pc[0]
            seen, stack, bad = set(), [m for m in cfg.g.successors(nid) if not (cfg.g[nid][m]['labels'] <= {'exc'})], None
            while stack and bad is None:
                m = stack.pop()
                if m in seen:
                    continue
                seen.add(m)
                q = pieces.get(m)
                if q is not None and q[0] == acc:
                    lit = literal(q[1])
                    if '\n' in lit and not lit.split('\n')[0].strip():
                        continue                      # the line ends here
                    if isinstance(cfg.nodes[m].ast, ast.Assign) and '\n' in lit:
                        continue
                    bad = cfg.nodes[m]
                    break
                for k in cfg.g.successors(m):
                    if not (cfg.g[m][k]['labels'] <= {'exc'}):
                        stack.append(k)
            chk.instance(P20, f'{fname}: after `{cfg.nodes[nid].text()[:50]}` only the line end follows: {bad is None}')
            if bad is not None:
                chk.violation(P20, um.rel, fname, f'{cfg.nodes[nid].text()[:50]} ... {bad.text()[:40]}',
                              'text is appended to the line after the comment was opened: NM-TRAN and the parser read it as '
                              'part of the comment', line=bad.line,
                              witness='a new fixed, named $OMEGA record is written as `$OMEGA  0.2 ; OM_V FIX`: it reads back '
                                      'unfixed')
    if n20 < 2:
        raise AnalysisError(f'P20: only {n20} comment fragments found in the record writers')


LOSSY_POSITIVE = "def f(x):\n    return f'{x:g}', '%.6f' % x, format(x, '.3e'), round(x, 4), '{:.5g}'.format(x)\n"


def lossy_number_conversions(node):
    """[(ast node, text)]: conversions of a number to text (or to a shorter number) that keep only some of its digits:
    format specs with a precision or a g/e/f presentation, %-formatting with %g/%e/%f, format(x, spec), str.format with such a
    spec, round(x, n). str(float) / repr(float) are exact (shortest round-trip representation) and are not reported."""
    import re
    spec_re = re.compile(r'(\.\d+)?[gGeEfF%]$|\.\d+$')
    out = []
    for n in ast.walk(node):
        if isinstance(n, ast.FormattedValue) and n.format_spec is not None:
            spec = ''.join(v.value for v in n.format_spec.values if isinstance(v, ast.Constant) and isinstance(v.value, str))
            if spec_re.search(spec) or any(not isinstance(v, ast.Constant) for v in n.format_spec.values):
                out.append((n, f'format spec {spec!r}'))
        elif isinstance(n, ast.BinOp) and isinstance(n.op, ast.Mod) and isinstance(n.left, ast.Constant) \
                and isinstance(n.left.value, str) and re.search(r'%[-+ 0#]*\d*(\.\d+)?[gGeEfF]', n.left.value):
            out.append((n, f'%-format {n.left.value!r}'))
        elif isinstance(n, ast.Call) and isinstance(n.func, ast.Name) and n.func.id == 'format' and len(n.args) == 2 \
                and isinstance(n.args[1], ast.Constant) and spec_re.search(str(n.args[1].value)):
            out.append((n, f'format(.., {n.args[1].value!r})'))
        elif isinstance(n, ast.Call) and isinstance(n.func, ast.Attribute) and n.func.attr == 'format' \
                and isinstance(n.func.value, ast.Constant) and isinstance(n.func.value.value, str) \
                and re.search(r'\{[^{}]*:[^{}]*((\.\d+)?[gGeEfF]|\.\d+)\}', n.func.value.value):
            out.append((n, f'str.format {n.func.value.value!r}'))
        elif isinstance(n, ast.Call) and isinstance(n.func, ast.Name) and n.func.id == 'round' and len(n.args) == 2:
            out.append((n, 'round(.., n)'))
        elif isinstance(n, ast.Call) and (dotted(n.func) or '').split('.')[-1] in ('format_float_positional', 'format_float_scientific',
                                                                                 'float32', 'float16'):
            out.append((n, dotted(n.func)))
    return out


def run_p22(chk, repo):
    """P22: every number that ThetaRecord.update / OmegaRecord.update write into a NUMERIC token (initial estimates and bounds)
    reaches the token through an exact conversion: no function of the two record modules, and no helper they call to produce
    the token text, limits the number of digits. Exactness of str(float) is Python's (shortest repr that round-trips)."""
    P22 = chk.rule('P22', '$THETA / $OMEGA writers: numbers reach their NUMERIC token through an exact conversion (no precision-'
                          'limiting format spec, %-format, format(), round())', floor=6)
    if len(lossy_number_conversions(ast.parse(LOSSY_POSITIVE))) != 5:
        raise AnalysisError('P22: the lossy-conversion recogniser does not match its positive example')
    for mn in ('pharmpy.model.external.nonmem.records.theta_record', 'pharmpy.model.external.nonmem.records.omega_record'):
        m = repo.module(mn)
        funs = list(m.functions.values()) + [f for c in dict.values(m.classes) for f in c.methods.values()]
        ntok = 0
        for f in funs:
            for c in walk_no_nested(f.node):
                if isinstance(c, ast.Call) and (dotted(c.func) or '').endswith('AttrToken') and len(c.args) == 2 \
                        and isinstance(c.args[0], ast.Constant) and c.args[0].value == 'NUMERIC':
                    ntok += 1
                    chk.instance(P22, f'{m.rel.split("/")[-1]}:{f.qualname}: NUMERIC token from {unparse(c.args[1])[:50]}')
            for n, how in lossy_number_conversions(f.node):
                chk.violation(P22, m.rel, f.qualname, how,
                              f'{how}: the number written to the control stream keeps only some of its digits, so the re-read '
                              f'parameter differs from the one in the model', line=n.lineno,
                              witness='set a lower bound 0.000123456789 (or an initial estimate with more than 6 significant '
                                      'digits) and re-read the written model')
        if ntok == 0:
            raise AnalysisError(f'P22: no NUMERIC token construction found in {mn}')
