"""C02 Generated NONMEM code means what the model means: B1 writer/reader PK table agreement, B2 renamer table,
B3 printer/parser inverse (tokens, n-ary operands, parenthesisation), B4 one numbering source."""
from __future__ import annotations

import ast
import itertools
import json

import sympy

from sa import grammar as G
from sa import tables as T
from sa.report import AnalysisError, VERIF
from sa.srcmodel import unparse, walk_no_nested, calls_in, dotted
from rules.C01 import extract_trans_tables, extract_advan_branches

NM = 'pharmpy.model.external.nonmem'
ROLE = {'central': 'CENTRAL', 'peripheral': 'PERIPHERAL', 'peripheral1': 'PERIPHERAL1', 'peripheral2': 'PERIPHERAL2',
        'output': 'OUTPUT', 'depot': 'DEPOT'}
# compartment correspondence between ADVANs (same role)
CORR = {'PERIPHERAL': 'PERIPHERAL1', 'PERIPHERAL1': 'PERIPHERAL'}
SYM_LOCALS = {s: sympy.Symbol(s) for s in ['Q', 'GAMMA', 'BETA', 'ALPHA', 'S', 'N', 'E', 'I']}


def names(node):
    return {n.id for n in ast.walk(node) if isinstance(n, ast.Name)}


def eval_cond(test, env):
    """evaluate a test over the string variables in env; None when it involves anything else"""
    if isinstance(test, ast.Compare) and len(test.ops) == 1 and isinstance(test.left, ast.Name) and test.left.id in env:
        c = test.comparators[0]
        if isinstance(c, ast.Constant):
            if isinstance(test.ops[0], ast.Eq):
                return env[test.left.id] == c.value
            if isinstance(test.ops[0], ast.NotEq):
                return env[test.left.id] != c.value
        if isinstance(c, (ast.List, ast.Tuple)) and isinstance(test.ops[0], ast.In):
            return env[test.left.id] in [e.value for e in c.elts if isinstance(e, ast.Constant)]
        if isinstance(c, (ast.List, ast.Tuple)) and isinstance(test.ops[0], ast.NotIn):
            return env[test.left.id] not in [e.value for e in c.elts if isinstance(e, ast.Constant)]
    if isinstance(test, ast.BoolOp):
        vals = [eval_cond(v, env) for v in test.values]
        if any(v is None for v in vals):
            return None
        return any(vals) if isinstance(test.op, ast.Or) else all(vals)
    return None


def collect_dict(stmts, env, out):
    """d[Expr.symbol('A')] = Expr.symbol('B') / d.update({...}) under conditions decided by env"""
    for s in stmts:
        if isinstance(s, ast.If):
            v = eval_cond(s.test, env)
            if v is True:
                collect_dict(s.body, env, out)
            elif v is False:
                collect_dict(s.orelse, env, out)
            continue
        pairs = []
        if isinstance(s, ast.Assign) and isinstance(s.targets[0], ast.Subscript) and unparse(s.targets[0].value) == 'd':
            pairs.append((s.targets[0].slice, s.value))
        if isinstance(s, ast.Expr) and isinstance(s.value, ast.Call) and isinstance(s.value.func, ast.Attribute) \
                and s.value.func.attr == 'update' and unparse(s.value.func.value) == 'd' and s.value.args \
                and isinstance(s.value.args[0], ast.Dict):
            pairs += list(zip(s.value.args[0].keys, s.value.args[0].values))
        for k, v in pairs:
            if isinstance(k, ast.Call) and k.args and isinstance(k.args[0], ast.Constant) \
                    and isinstance(v, ast.Call) and v.args and isinstance(v.args[0], ast.Constant):
                out[k.args[0].value] = v.args[0].value


def run(chk, repo, tier):
    chk.explanation = (
        'B1: every PK-parameter ratio the writer defines for an (ADVAN, TRANS) equals the rate the reader assigns to the '
        'same edge (and the PREDPP reference). B2: the renaming dictionaries of pk_param_conversion equal the renaming '
        'derived by unifying corresponding edges of the reader tables, and opposite directions are inverse. B3: for every '
        'relational/logical class the printer emits a token that the code grammar and interpreter map back to the same '
        'class; connectives print all their operands; operands of lower precedence are parenthesised. B4: every site that '
        'turns compartments into NONMEM numbers takes the order from compartment_names/amounts/eqs. NOT decided: semantic '
        'equality after arbitrary transformation sequences, the LCS driven statement rewrite, dataset column values.')
    B1 = chk.rule('B1', 'writer PK ratios == reader rates per (ADVAN, TRANS, edge)', floor=10)
    B2 = chk.rule('B2', 'pk_param_conversion dictionaries == renaming derived from the reader tables; directions inverse',
                  floor=15)
    B3 = chk.rule('B3', 'printer tokens parse back to the same class; n-ary operands all printed; lower precedence '
                        'operands parenthesised', floor=10)
    B4 = chk.rule('B4', 'compartment numbering sites use the shared compartment order', floor=4)
    from rules import C02b
    C02b.run(chk, repo)
    C02b.run_b8(chk, repo)
    C02b.run_b10(chk, repo)
    C02b.run_b11(chk, repo)
    C02b.run_b12(chk, repo)
    B13 = chk.rule('B13', 'writer: a branch guarded by the existence of a PK symbol uses that symbol', floor=4)
    C02b.run_b14(chk, repo)
    C02b.run_b15(chk, repo)
    C02b.run_b16(chk, repo)
    C02b.run_b17(chk, repo)
    C02b.run_b18(chk, repo)
    C02b.run_b24(chk, repo)
    C02b.run_b19(chk, repo)
    C02b.run_b20(chk, repo)
    C02b.run_b21_b22(chk, repo)
    C02b.run_b23(chk, repo)
    C02b.run_b25(chk, repo)
    # the $OMEGA writer is shared with C04: the order of its scale conversions decides what the generated record means
    from rules.C04b import run_p13_p15, run_p19_p20
    run_p13_p15(chk, repo)
    run_p19_p20(chk, repo)
    from rules.C01b import run_a9
    run_a9(chk, B13, repo, modname='pharmpy.model.external.nonmem.update', minimum=3)

    um = repo.module(f'{NM}.update')
    am = repo.module(f'{NM}.advan')
    spec = json.loads((VERIF / 'specs/predpp.json').read_text())
    trans_tables = extract_trans_tables(am)
    branches = extract_advan_branches(am)

    def reader_flows(advan, trans):
        """edge -> sympy rate as the reader builds it (from code)"""
        br = branches[advan]
        var2name = {v: d['name'] for v, d in br['comps'].items()}
        var2name['output'] = 'OUTPUT'
        out = {}
        for src, dst, node, line in br['flows']:
            key = f'{var2name.get(src, src)}>{var2name.get(dst, dst)}'
            if isinstance(node, ast.Name) and node.id in br['unpack']:
                fn, idx = br['unpack'][node.id]
                tbl = trans_tables[fn]
                row = tbl.get(trans, tbl.get(None))
                out[key] = row[idx]
            elif isinstance(node, ast.Call) and (dotted(node.func) or '').endswith('_trans'):
                tbl = trans_tables[dotted(node.func)]
                out[key] = tbl.get(trans, tbl.get(None))[0]
        return out

    # ---------------------------------------------------------------- B1
    up = um.functions.get('update_needed_pk_parameters')
    if up is None:
        raise AnalysisError('update_needed_pk_parameters not found')
    cells = []
    for advan in ('ADVAN1', 'ADVAN2', 'ADVAN3', 'ADVAN4', 'ADVAN11', 'ADVAN12'):
        for trans in ('TRANS1', 'TRANS2', 'TRANS3', 'TRANS4'):
            if trans not in spec.get(advan, {}):
                continue
            found = []

            def walk(stmts, env):
                for s in stmts:
                    if isinstance(s, ast.If):
                        v = eval_cond(s.test, env)
                        if v is True:
                            walk(s.body, env)
                        elif v is False:
                            walk(s.orelse, env)
                        continue
                    for c in [x for x in ast.walk(s) if isinstance(x, ast.Call)]:
                        if dotted(c.func) == 'add_parameters_ratio' and len(c.args) == 5:
                            found.append(c)
            walk(up.node.body, {'advan': advan, 'trans': trans})
            rf = reader_flows(advan, trans)
            for c in found:
                num, den = c.args[1].value, c.args[2].value
                def role(e):
                    # `peripherals[0]` / `odes.find_peripheral_compartments()[1]`: the k-th peripheral compartment
                    if isinstance(e, ast.Subscript) and isinstance(e.slice, ast.Constant) and isinstance(e.slice.value, int) \
                            and 'peripheral' in unparse(e.value).lower():
                        return f'PERIPHERAL{e.slice.value + 1}'
                    return ROLE.get(unparse(e))
                src, dst = role(c.args[3]), role(c.args[4])
                if src is None or dst is None:
                    raise AnalysisError(f'B1: unknown compartment role in {unparse(c)}')
                edge = f'{src}>{dst}'
                w = sympy.Symbol(num) / sympy.Symbol(den)
                r = rf.get(edge)
                ref = spec[advan][trans]['flows'].get(edge)
                chk.instance(B1, f'{advan} {trans} {edge}: writer {num}/{den}, reader {r}')
                if r is None or not T.equal(w, r) or (ref and not T.equal(w, sympy.sympify(ref, locals=SYM_LOCALS))):
                    chk.violation(B1, um.rel, up.qualname, f'{advan} {trans} {edge}: {num}/{den}',
                                  f'the writer defines the rate of {edge} as {num}/{den}; the reader (and PREDPP) use {r}',
                                  line=c.lineno,
                                  witness=f'a model converted to {advan} {trans} (e.g. after adding/removing a '
                                          f'peripheral compartment): the generated $PK defines {num} and {den} for the '
                                          f'wrong flow, NONMEM computes other amounts than the in-memory model')
                cells.append((advan, trans, edge))
    if len(cells) < 10:
        raise AnalysisError(f'B1: only {len(cells)} writer cells extracted')

    # ---------------------------------------------------------------- B2
    pc = um.functions.get('pk_param_conversion')
    if pc is None:
        raise AnalysisError('pk_param_conversion not found')
    ADV = ['ADVAN1', 'ADVAN2', 'ADVAN3', 'ADVAN4', 'ADVAN11', 'ADVAN12']
    FAMILY = {'TRANS2': 'clv', 'TRANS4': 'clv', 'TRANS1': 'micro', 'TRANS6': 'hybrid', 'TRANS3': 'vss', 'TRANS5': 'aob'}

    def from_trans(from_advan, trans):
        fam = FAMILY[trans]
        cands = [t for t in spec[from_advan] if t.startswith('TRANS') and FAMILY[t] == fam]
        return cands[0] if len(cands) == 1 else (trans if trans in spec[from_advan] else None)

    def expected_map(fa, ta, tt):
        ft = from_trans(fa, tt)
        if ft is None or tt not in spec[ta]:
            return None
        f1 = {k: sympy.sympify(v, locals=SYM_LOCALS) for k, v in spec[fa][ft]['flows'].items()}
        f2 = {k: sympy.sympify(v, locals=SYM_LOCALS) for k, v in spec[ta][tt]['flows'].items()}
        mapping = {}
        for e1, x1 in f1.items():
            s, d = e1.split('>')
            for cand in (e1, f'{CORR.get(s, s)}>{d}', f'{s}>{CORR.get(d, d)}', f'{CORR.get(s, s)}>{CORR.get(d, d)}'):
                if cand in f2:
                    x2 = f2[cand]
                    s1, s2 = sorted(x1.free_symbols, key=str), sorted(x2.free_symbols, key=str)
                    if len(s1) != len(s2):
                        break
                    for perm in itertools.permutations(s2):
                        sub = dict(zip(s1, perm))
                        if T.equal(x1.subs(sub, simultaneous=True), x2):
                            for a, b in sub.items():
                                if str(a) != str(b):
                                    if mapping.get(str(a), str(b)) != str(b):
                                        return 'inconsistent'
                                    mapping[str(a)] = str(b)
                            break
                    break
        return mapping
    got_cells = {}
    for fa in ADV:
        for ta in ADV:
            if fa == ta:
                continue
            for tt in ('TRANS1', 'TRANS2', 'TRANS4', 'TRANS6'):
                if tt not in spec[ta]:
                    continue
                d = {}
                collect_dict(pc.node.body, {'from_advan': fa, 'advan': ta, 'trans': tt}, d)
                d = {k: v for k, v in d.items() if not k.startswith(('S', 'A('))}
                if d:
                    got_cells[(fa, ta, tt)] = d
    if len(got_cells) < 15:
        raise AnalysisError(f'B2: only {len(got_cells)} renamer cells extracted')
    for (fa, ta, tt), d in sorted(got_cells.items()):
        exp = expected_map(fa, ta, tt)
        chk.instance(B2, f'{fa}->{ta} {tt}: code {d}; derived {exp}')
        if exp in (None, 'inconsistent'):
            continue
        # only basic PK parameters of the source TRANS are user symbols that must be renamed; a renaming of any other
        # (user) symbol is harmless unless it lands on a reserved PK parameter name of the target TRANS
        ft = from_trans(fa, tt)
        src_params = set(spec[fa][ft]['params'])
        dst_params = set(spec[ta][tt]['params'])
        exp = {k: v for k, v in exp.items() if k in src_params}
        extra_bad = {k: v for k, v in d.items() if k not in exp and (k in src_params or v in dst_params)}
        if any(d.get(k) != v for k, v in exp.items()) or extra_bad:
            chk.violation(B2, um.rel, pc.qualname, f'{fa}->{ta} {tt}: {d}',
                          f'unifying the edges of {fa} and {ta} ({tt}) requires the renaming {exp}',
                          line=pc.node.lineno,
                          witness=f'change a {fa} model so that it becomes {ta} {tt}: user-defined PK parameters keep / '
                                  f'get names that {ta} {tt} interprets as another quantity (e.g. V2 as central volume)')
        inv = got_cells.get((ta, fa, from_trans(fa, tt) if from_trans(fa, tt) in spec.get(fa, {}) else tt))
        if inv is not None and exp not in (None, 'inconsistent'):
            back = {v: k for k, v in d.items()}
            chk.instance(B2, f'{fa}<->{ta} {tt}: inverse cell {inv}')
            if any(inv.get(k, k) != v for k, v in back.items() if k in inv):
                chk.violation(B2, um.rel, pc.qualname, f'{fa}<->{ta} {tt}: {d} vs {inv}',
                              'the renamings of the two directions are not inverse of each other', line=pc.node.lineno,
                              witness='add and then remove the compartment: parameter names do not return to the original')

    # ---------------------------------------------------------------- B3
    crm = repo.module(f'{NM}.records.code_record')
    pr = crm.classes.get('NMTranPrinter')
    ei = crm.classes.get('ExpressionInterpreter')
    if pr is None or ei is None:
        raise AnalysisError('NMTranPrinter / ExpressionInterpreter not found')
    L = G.load_file(G.nonmem_grammar_dir() / 'code_record.lark', start='root', keep_all_tokens=True,
                    propagate_positions=True)
    tbl = G.rule_table(L)
    tdefs = G.terminal_defs(L)
    tok2rule = {}
    for r, exps in tbl.items():
        for exp in exps:
            if len(exp) == 1 and exp[0] in tdefs:
                for a in (G.literal_alternatives(L, exp[0]) or []):
                    tok2rule[a] = r
    SYMPY_CLASS = {'Equality': 'sympy.Eq', 'Unequality': 'sympy.Ne', 'LessThan': 'sympy.Le', 'StrictLessThan': 'sympy.Lt',
                   'GreaterThan': 'sympy.Ge', 'StrictGreaterThan': 'sympy.Gt', 'Or': 'sympy.Or', 'And': 'sympy.And',
                   'Not': 'sympy.Not'}
    # printer methods installed on the class from a table: setattr(NMTranPrinter, '_print_X', factory('.OP.')) (the loop over
    # the table is unrolled by sa/unroll.py)
    installed = {}
    for c_ in ast.walk(crm.tree):
        if isinstance(c_, ast.Call) and dotted(c_.func) == 'setattr' and len(c_.args) == 3 and unparse(c_.args[0]) == pr.name \
                and isinstance(c_.args[1], ast.Constant) and isinstance(c_.args[1].value, str):
            installed[c_.args[1].value] = c_
    for cls, want in SYMPY_CLASS.items():
        m = pr.methods.get(f'_print_{cls}')
        chk.instance(B3, f'NMTranPrinter._print_{cls}')
        if m is None and f'_print_{cls}' in installed:
            class _M:           # stands for the installed method: the constants of the installing call are its tokens
                node = installed[f'_print_{cls}']
            m = _M
        if m is None:
            chk.violation(B3, crm.rel, 'NMTranPrinter', f'no _print_{cls}',
                          f'{cls} is printed in sympy syntax, which is not NM-TRAN', witness=f'a condition with {cls}')
            continue
        toks = [c.value.strip().upper() for c in ast.walk(m.node) if isinstance(c, ast.Constant) and isinstance(c.value, str)
                and c.value.strip().startswith('.')]
        toks = [t.split(' ')[0] for t in toks]
        if not toks:
            raise AnalysisError(f'_print_{cls}: printed token not found')
        rule = tok2rule.get(toks[0])
        hm = repo.find_method(ei, rule) if rule else None
        back = None
        if hm is not None:
            rets = [unparse(n.value) for n in walk_no_nested(hm.node) if isinstance(n, ast.Return)]
            back = rets[0] if rets else None
        chk.instance(B3, f'{cls} -> {toks[0]} -> rule {rule} -> {back}')
        if back != want:
            chk.violation(B3, crm.rel, f'NMTranPrinter._print_{cls}', f'{toks[0]} -> {back}',
                          f'{cls} is printed as {toks[0]}, which the reader maps to {back} instead of {want}',
                          line=m.node.lineno,
                          witness=f'a Piecewise condition with {cls}: the generated IF uses another relation; re-reading the '
                                  f'generated code gives another model')
    di = pr.methods.get('_do_infix')
    if di is None:
        raise AnalysisError('NMTranPrinter._do_infix not found')
    idx = [n for n in ast.walk(di.node) if isinstance(n, ast.Subscript) and unparse(n.value) == 'expr.args'
           and isinstance(n.slice, ast.Constant)]
    iterates = any(isinstance(n, (ast.comprehension, ast.For)) and unparse(n.iter) == 'expr.args' for n in ast.walk(di.node))
    chk.instance(B3, f'_do_infix prints all operands (iterates expr.args: {iterates}; fixed indices {[unparse(i) for i in idx]})')
    if not iterates:
        chk.violation(B3, crm.rel, 'NMTranPrinter._do_infix', 'fixed operand indices',
                      'only the first operands of an n-ary .AND./.OR. are printed', line=di.node.lineno,
                      witness='IF (A.EQ.1.OR.A.EQ.2.OR.A.EQ.3): after any edit that regenerates the statement the third '
                              'alternative is gone')
    parenth = any(isinstance(c, ast.Call) and isinstance(c.func, ast.Attribute) and c.func.attr == 'parenthesize'
                  for c in ast.walk(di.node)) or any(
        isinstance(c, ast.Constant) and isinstance(c.value, str) and '(' in c.value for c in ast.walk(di.node))
    chk.instance(B3, f'_do_infix parenthesises operands of lower precedence: {parenth}')
    if not parenth:
        chk.violation(B3, crm.rel, 'NMTranPrinter._do_infix', 'operands printed without precedence handling',
                      'an .OR. nested inside an .AND. (or a sum inside a comparison of lower precedence) is printed '
                      'without parentheses', line=di.node.lineno,
                      witness='condition (A>1 or B>1) and C>1 is generated as C.GT.1.AND.A.GT.1.OR.B.GT.1, which NM-TRAN '
                              'reads as (C>1 and A>1) or B>1')
    # function printing: name printed is the class/function name that the grammar maps back
    pf = pr.methods.get('_print_Function')
    chk.instance(B3, '_print_Function prints NAME(arg)')
    if pf is None or 'upper()' not in unparse(pf.node):
        chk.violation(B3, crm.rel, 'NMTranPrinter._print_Function', 'function name', 'function names are not printed in '
                      'NM-TRAN spelling', witness='exp(x) printed in lower case / sympy name')
    pp = pr.methods.get('_print_Pow')
    sq = pp is not None and 'SQRT(' in unparse(pp.node) and 'Rational(1, 2)' in unparse(pp.node)
    chk.instance(B3, f'_print_Pow: x**(1/2) -> SQRT(x): {sq}')
    if not sq:
        chk.violation(B3, crm.rel, 'NMTranPrinter._print_Pow', 'sqrt', 'square roots are not printed as SQRT()',
                      witness='sqrt(x) is generated as x**(1/2) = x**0 in Fortran integer arithmetic')

    # ---------------------------------------------------------------- B4
    ORDER_SOURCES = ('compartment_names', 'amounts', 'eqs', '_order_compartments')
    sites = [('pharmpy.model.external.nonmem.update', 'new_compartmental_map'),
             ('pharmpy.model.external.nonmem.update', 'to_des'),
             ('pharmpy.model.external.nonmem.update', 'update_model_record'),
             ('pharmpy.model.external.nonmem.records.code_record', 'CodeRecord.from_odes')]
    for modname, fname in sites:
        mod = repo.module(modname)
        f = mod.functions.get(fname)
        if f is None:
            raise AnalysisError(f'{modname}.{fname} not found')
        uses = {a for a in ORDER_SOURCES if any(isinstance(n, ast.Attribute) and n.attr == a for n in ast.walk(f.node))}
        calls_map = any(dotted(c.func) == 'new_compartmental_map' for c in calls_in(f.node))
        raw = [unparse(n) for n in ast.walk(f.node) if isinstance(n, ast.Attribute) and n.attr in ('nodes', '_g')
               ] + [unparse(c) for c in calls_in(f.node) if dotted(c.func) in ('_comps',)]
        chk.instance(B4, f'{fname}: order from {sorted(uses) or ("new_compartmental_map" if calls_map else "?")}; raw graph access {raw}')
        if raw or not (uses or calls_map):
            chk.violation(B4, mod.rel, fname, f'order source {sorted(uses)} raw {raw}',
                          'NONMEM compartment numbers are not derived from the shared compartment order', line=f.node.lineno,
                          witness='a system whose insertion order differs from the canonical order: $MODEL, A(n), DADT(n) '
                                  'and the CMT column use different numberings')
