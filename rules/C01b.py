"""C01 (continued): A7 unit typestate of the $OMEGA block matrix (SD/CORR/CHOLESKY), A8 block-IF fall-through is decided
per symbol and branches that do not assign a symbol are accounted for."""
from __future__ import annotations

import ast

from sa.cfg import CFG
from sa.report import AnalysisError
from sa.srcmodel import unparse, walk_no_nested, dotted

NMREC = 'pharmpy.model.external.nonmem.records'


def _names(node):
    return {n.id for n in ast.walk(node) if isinstance(n, ast.Name)}


def _under_sqrt(root, target_pred):
    """True if every node satisfying target_pred inside root lies below a sqrt call / ** 0.5"""
    found, covered = [], []

    def walk(n, inside):
        if target_pred(n):
            found.append(n)
            if inside:
                covered.append(n)
            return
        ins = inside
        if isinstance(n, ast.Call) and (dotted(n.func) or '').split('.')[-1] == 'sqrt':
            ins = True
        if isinstance(n, ast.BinOp) and isinstance(n.op, ast.Pow) and isinstance(n.right, ast.Constant) and n.right.value == 0.5:
            ins = True
        for c in ast.iter_child_nodes(n):
            walk(c, ins)
    walk(root, False)
    return found, covered


def run_a7(chk, A7, repo):
    om = repo.cls(f'{NMREC}.omega_record.OmegaRecord')
    f = om.methods.get('parse')
    if f is None:
        raise AnalysisError('OmegaRecord.parse not found')
    cfg = CFG(f.node)
    # the matrix variable: assigned from flattened_to_symmetric(...)
    mat = None
    for n in walk_no_nested(f.node):
        if isinstance(n, ast.Assign) and isinstance(n.value, ast.Call) and dotted(n.value.func) == 'flattened_to_symmetric':
            mat = n.targets[0].id
    if mat is None:
        raise AnalysisError('A7: flattened_to_symmetric() assignment not found in OmegaRecord.parse')

    def is_diag_sub(x):
        return isinstance(x, ast.Subscript) and isinstance(x.value, ast.Name) and x.value.id == mat \
            and isinstance(x.slice, ast.Tuple) and len(x.slice.elts) == 2 \
            and unparse(x.slice.elts[0]) == unparse(x.slice.elts[1])
    cov_nodes, square_nodes = [], []
    for n in cfg.nodes.values():
        a = n.ast
        if n.kind != 'stmt':
            continue
        if isinstance(a, ast.Assign) and isinstance(a.targets[0], ast.Subscript) and isinstance(a.targets[0].value, ast.Name) \
                and a.targets[0].value.id == mat and isinstance(a.targets[0].slice, ast.Tuple) \
                and not is_diag_sub(a.targets[0]):
            found, covered = _under_sqrt(a.value, is_diag_sub)
            if len(found) >= 2:
                form = 'sqrt' if len(covered) == len(found) else ('raw' if not covered else 'mixed')
                cov_nodes.append((n, form))
        if isinstance(a, ast.Expr) and isinstance(a.value, ast.Call) and (dotted(a.value.func) or '').endswith('fill_diagonal') \
                and a.value.args and unparse(a.value.args[0]) == mat:
            arg = a.value.args[1]
            if any(isinstance(x, ast.BinOp) and isinstance(x.op, ast.Pow) and isinstance(x.right, ast.Constant)
                   and x.right.value == 2 for x in ast.walk(arg)):
                square_nodes.append(n)
    if not cov_nodes or not square_nodes:
        raise AnalysisError(f'A7: correlation-to-covariance assignments ({len(cov_nodes)}) or diagonal squaring '
                            f'({len(square_nodes)}) not recognised in OmegaRecord.parse')
    tests = [n for n in cfg.nodes.values() if n.kind == 'test']

    def guard_polarity(node, flag):
        """'true' / 'false' if every path to node takes that edge of a test on `flag`, else None"""
        for t in tests:
            e = t.ast
            if isinstance(e, (ast.Name, ast.Attribute)) and unparse(e) == flag:
                for pol in ('true', 'false'):
                    if cfg.edge_dominates(t.id, pol, node.id):
                        return pol
        return None
    # the flag guarding the squaring is the SD flag
    sdflag = None
    for t in tests:
        # the flag may be a local (`sd`) or a field of a record of flags (`flags.sd`)
        if isinstance(t.ast, (ast.Name, ast.Attribute)) and cfg.edge_dominates(t.id, 'true', square_nodes[0].id):
            sdflag = unparse(t.ast)   # innermost wins: keep the last dominating test
    if sdflag is None:
        raise AnalysisError('A7: the diagonal squaring is not guarded by a flag')
    chk.instance(A7, f'diagonal squaring `{square_nodes[0].text()}` guarded by `{sdflag}`')
    forms = {form for _, form in cov_nodes}
    if forms != {'raw', 'sqrt'}:
        n0 = cov_nodes[0][0]
        chk.violation(A7, f.module.rel, f.qualname, f'covariance from correlation only in the form(s) {sorted(forms)}',
                      f'the diagonal holds standard deviations under `{sdflag}` and variances otherwise (that is why it is '
                      f'squared under `{sdflag}`), so the correlation must be multiplied with the plain diagonal in one case '
                      f'and with its square roots in the other; only {sorted(forms)} exists', line=n0.line,
                      witness='$OMEGA BLOCK(2) STANDARD CORRELATION 2 0.5 3: the covariance is not 0.5*2*3')
    for n, form in cov_nodes:
        pol = guard_polarity(n, sdflag)
        want = {'raw': 'true', 'sqrt': 'false'}.get(form)
        chk.instance(A7, f'`{n.text()}`: form {form}, under {sdflag}={pol}')
        if want is None or pol != want:
            chk.violation(A7, f.module.rel, f.qualname, n.text(),
                          f'covariance from correlation uses the {form} diagonal under {sdflag}={pol}: with SD the diagonal '
                          f'holds standard deviations (plain product), with VARIANCE it holds variances (square roots)',
                          line=n.line,
                          witness='$OMEGA BLOCK(2) with CORRELATION and either STANDARD or VARIANCE and a non-zero '
                                  'off-diagonal value: the covariance differs from corr*sd_i*sd_j')
        if form == 'raw':
            for sq in square_nodes:
                if n.id in cfg.reachable(sq.id):
                    chk.violation(A7, f.module.rel, f.qualname, f'{sq.text()} ... {n.text()}',
                                  'the diagonal is converted to variances before the correlations are multiplied with it as '
                                  'standard deviations', line=sq.line, path=cfg.describe(cfg.path(sq.id, n.id) or []),
                                  witness='$OMEGA BLOCK(2) STANDARD CORRELATION 2 0.5 3: covariance becomes 0.5*4*9 instead '
                                          'of 0.5*2*3')
    # diagonal records: SD init is squared
    sq_diag = [n for n in walk_no_nested(f.node) if isinstance(n, ast.If) and isinstance(n.test, (ast.Name, ast.Attribute))
               and any(isinstance(s_, ast.Assign) and isinstance(s_.value, ast.BinOp) and isinstance(s_.value.op, ast.Pow)
                       and isinstance(s_.value.right, ast.Constant) and s_.value.right.value == 2
                       and unparse(s_.targets[0]) == unparse(s_.value.left) for s_ in n.body)]
    chk.instance(A7, f'diagonal item: SD initial estimate squared under a flag: {[unparse(n.test) for n in sq_diag]}')
    if not sq_diag:
        chk.violation(A7, f.module.rel, f.qualname, 'diag_item: init = init ** 2 under SD',
                      'a diagonal initial estimate given as standard deviation is not converted to a variance',
                      line=f.node.lineno, witness='$OMEGA (0.3 SD) is read as variance 0.3 instead of 0.09')
    # cholesky: lower triangle filled row-wise, A = L @ L.T
    chol = None
    for n in walk_no_nested(f.node):
        if isinstance(n, ast.Assign) and isinstance(n.targets[0], ast.Name) and n.targets[0].id == mat \
                and isinstance(n.value, ast.BinOp) and isinstance(n.value.op, ast.MatMult):
            chol = n
    if chol is None:
        raise AnalysisError('A7: CHOLESKY product not recognised')
    lname = unparse(chol.value.left)
    tri = [unparse(c.func) for c in (x for x in walk_no_nested(f.node) if isinstance(x, ast.Call))
           if (dotted(c.func) or '').split('.')[-1] in ('tril_indices_from', 'triu_indices_from', 'tril_indices', 'triu_indices')]
    ok = unparse(chol.value.right) == f'{lname}.T' and tri and all('tril' in t for t in tri)
    chk.instance(A7, f'CHOLESKY: {unparse(chol)} with indices {tri}')
    if not ok:
        chk.violation(A7, f.module.rel, f.qualname, unparse(chol),
                      'CHOLESKY values are the row-wise lower triangle L and the matrix is L L^T', line=chol.lineno,
                      witness='$OMEGA BLOCK(2) CHOLESKY 1 2 3: NONMEM uses [[1,2],[2,13]]')


def run_a8(chk, A8, repo):
    m = repo.module(f'{NMREC}.code_record')
    f = m.functions.get('_parse_tree')
    if f is None:
        raise AnalysisError('_parse_tree not found')
    # the per-symbol loop: a For over `symbols` whose body builds a Piecewise
    loops = [n for n in ast.walk(f.node) if isinstance(n, ast.For)
             and any(isinstance(c, ast.Call) and (dotted(c.func) or '').endswith('Piecewise') for c in ast.walk(n))
             and not any(isinstance(c, ast.For) and c is not n and any(
                 isinstance(c2, ast.Call) and (dotted(c2.func) or '').endswith('Piecewise') for c2 in ast.walk(c))
                 for c in ast.walk(n))]
    if len(loops) != 1 or not isinstance(loops[0].target, ast.Name):
        raise AnalysisError(f'A8: per-symbol Piecewise loop not recognised ({len(loops)})')
    loop = loops[0]
    sym = loop.target.id
    pw = next(c for c in ast.walk(loop) if isinstance(c, ast.Call) and (dotted(c.func) or '').endswith('Piecewise'))
    if not (pw.args and isinstance(pw.args[0], ast.Starred) and isinstance(pw.args[0].value, ast.Name)):
        raise AnalysisError('A8: Piecewise(*pairs) not recognised')
    pairs = pw.args[0].value.id
    # dependence closure inside the loop body (flow-insensitive): name -> names it depends on (data + control)
    deps: dict[str, set[str]] = {}

    def visit(stmts, ctrl):
        for s_ in stmts:
            if isinstance(s_, ast.Assign):
                for t in s_.targets:
                    for nm in (x.id for x in ast.walk(t) if isinstance(x, ast.Name)):
                        deps.setdefault(nm, set()).update(_names(s_.value) | ctrl)
            elif isinstance(s_, ast.AugAssign):
                for nm in (x.id for x in ast.walk(s_.target) if isinstance(x, ast.Name)):
                    deps.setdefault(nm, set()).update(_names(s_.value) | ctrl)
            elif isinstance(s_, ast.Expr) and isinstance(s_.value, ast.Call) and isinstance(s_.value.func, ast.Attribute) \
                    and isinstance(s_.value.func.value, ast.Name):
                deps.setdefault(s_.value.func.value.id, set()).update(
                    set().union(*[_names(a) for a in s_.value.args], set()) | ctrl)
            elif isinstance(s_, ast.If):
                c = ctrl | _names(s_.test)
                visit(s_.body, c)
                visit(s_.orelse, c)
            elif isinstance(s_, ast.For):
                for nm in (x.id for x in ast.walk(s_.target) if isinstance(x, ast.Name)):
                    deps.setdefault(nm, set()).update(_names(s_.iter) | ctrl)
                visit(s_.body, ctrl)
                visit(s_.orelse, ctrl)
            elif isinstance(s_, (ast.While,)):
                visit(s_.body, ctrl | _names(s_.test))
    visit(loop.body, set())

    def closure(names_):
        out, stack = set(), list(names_)
        while stack:
            x = stack.pop()
            if x in out:
                continue
            out.add(x)
            stack.extend(deps.get(x, ()))
        return out
    # (i) the fall-through append: pairs.append((<prev>, True)) directly in the loop body (not in the block loop)
    ft = None
    for s_ in ast.walk(loop):
        if isinstance(s_, ast.If):
            for b in ast.walk(s_):
                if isinstance(b, ast.Call) and isinstance(b.func, ast.Attribute) and b.func.attr == 'append' \
                        and unparse(b.func.value) == pairs and b.args and isinstance(b.args[0], ast.Tuple) \
                        and len(b.args[0].elts) == 2 and isinstance(b.args[0].elts[1], ast.Constant) \
                        and b.args[0].elts[1].value is True:
                    if ft is None or s_.lineno < ft[0].lineno:
                        ft = (s_, b)
    if ft is None:
        raise AnalysisError('A8: fall-through pair (previous value, True) not recognised')
    # all tests enclosing the append inside the loop
    encl = []

    def find(stmts, stack):
        for s_ in stmts:
            if isinstance(s_, ast.If):
                if any(x is ft[1] for x in ast.walk(s_)):
                    encl.append(s_.test)
                    find(s_.body, stack)
                    find(s_.orelse, stack)
            elif isinstance(s_, (ast.For, ast.While)):
                find(s_.body, stack)
    find(loop.body, [])
    block_iter = set().union(*[_names(s_.iter) for s_ in loop.body if isinstance(s_, ast.For)], set())
    decided = False
    for t in encl:
        cl = closure(_names(t))
        if pairs in cl or (sym in cl and block_iter & cl):
            decided = True
    chk.instance(A8, f'fall-through `{unparse(ft[1])}` guarded by {[unparse(t) for t in encl]}; some guard depends on the '
                     f'branches recorded for the loop symbol: {decided}')
    if not decided:
        chk.violation(A8, m.rel, f.qualname, f'if {unparse(encl[0]) if encl else "?"}: {unparse(ft[1])}',
                      f'whether `{sym}` keeps its previous value is decided without looking at the branches that assign '
                      f'`{sym}` (the guard does not depend on the loop symbol)', line=ft[1].lineno,
                      witness='IF (A) THEN; X = 1; Y = 1; ELSE; Y = 2; ENDIF with X defined before: X has no value when A is '
                              'false (Piecewise without default)')
    # (ii) branches that do not assign the symbol are accounted for inside the per-block loop
    block_loops = [s_ for s_ in loop.body if isinstance(s_, ast.For)]
    if not block_loops:
        raise AnalysisError('A8: per-block loop not recognised')
    bl = block_loops[0]
    per_symbol_state = {nm for s_ in loop.body if isinstance(s_, ast.Assign) for t in s_.targets
                        for nm in _names(t)}
    accounted = []

    def scan(stmts, positive_match):
        for s_ in stmts:
            if isinstance(s_, ast.If):
                t = s_.test
                pos = isinstance(t, ast.Compare) and len(t.ops) == 1 and isinstance(t.ops[0], ast.Eq) and sym in _names(t)
                scan(s_.body, positive_match or pos)
                scan(s_.orelse, positive_match)
            elif isinstance(s_, (ast.For, ast.While)):
                scan(s_.body, positive_match)
            else:
                tgt = None
                if isinstance(s_, ast.Expr) and isinstance(s_.value, ast.Call) and isinstance(s_.value.func, ast.Attribute) \
                        and isinstance(s_.value.func.value, ast.Name):
                    tgt = s_.value.func.value.id
                if tgt in per_symbol_state and not positive_match:
                    accounted.append(unparse(s_))
    scan(bl.body, False)
    chk.instance(A8, f'per-block loop updates per-symbol state outside the `== {sym}` match: {accounted}')
    if not accounted:
        chk.violation(A8, m.rel, f.qualname, f'for {unparse(bl.target)} in {unparse(bl.iter)}: only matching assignments '
                                             f'are recorded',
                      f'a branch that does not assign `{sym}` leaves no trace, so a later branch (ELSE) that assigns it is '
                      f'taken as unconditional', line=bl.lineno,
                      witness='CL = 1; IF (X.EQ.1) THEN; V = 2; ELSE; CL = 3; ENDIF is read as CL = 3 for all records; '
                              'NM-TRAN keeps CL = 1 when X = 1')


def run_a9(chk, A9, repo, modname='pharmpy.model.external.nonmem.advan', minimum=3):
    """existence guard and use name the same symbol"""
    m = repo.module(modname)
    n = 0
    for f in m.functions.values():
        for I in [x for x in walk_no_nested(f.node) if isinstance(x, ast.If)]:
            calls = [c for c in ast.walk(I.test) if isinstance(c, ast.Call) and isinstance(c.func, ast.Attribute)
                     and c.func.attr in ('find_assignment', 'find_assignment_index') and c.args]
            for c in calls:
                tested = unparse(c.args[0])
                syms = [unparse(s_.args[0]) for b in I.body for s_ in ast.walk(b) if isinstance(s_, ast.Call)
                        and unparse(s_.func) in ('Expr.symbol', 'sympy.Symbol') and s_.args
                        and isinstance(s_.args[0], (ast.Name, ast.Constant))]
                if not syms:
                    continue
                n += 1
                ok = tested in syms
                chk.instance(A9, f'{f.qualname}: guarded by find_assignment({tested}), uses symbols {syms}: {ok}')
                if not ok:
                    chk.violation(A9, m.rel, f.qualname, f'if ...find_assignment({tested}): ... Expr.symbol({syms[0]})',
                                  f'the branch is entered because `{tested}` is defined, but the expression uses '
                                  f'`{syms[0]}`', line=I.lineno,
                                  witness='ADVAN4 with observations in CMT=2 and CMT=3 and S2, S3 defined: the CMT=3 prediction '
                                          'is scaled by S2')
    if n < minimum:
        raise AnalysisError(f'{A9}: only {n} guarded symbol uses found in {modname}')


def _bool_eval(e, env):
    """evaluate a sympy boolean constructor expression (And/Or/Not calls, star-unpacked comprehensions over a list bound in
    env) for concrete truth values"""
    if isinstance(e, ast.Name):
        if e.id in env:
            return env[e.id]
        raise AnalysisError(f'A8: unbound name {e.id} in the branch condition')
    if isinstance(e, ast.Constant):
        return bool(e.value)
    if isinstance(e, ast.Call):
        fn = (dotted(e.func) or '').split('.')[-1]
        args = []
        for a in e.args:
            if isinstance(a, ast.Starred):
                v = a.value
                if isinstance(v, (ast.GeneratorExp, ast.ListComp)):
                    gen = v.generators[0]
                    seq = _bool_eval(gen.iter, env)
                    for item in seq:
                        env2 = dict(env)
                        env2[gen.target.id] = item
                        if all(_bool_eval(c, env2) for c in gen.ifs):
                            args.append(_bool_eval(v.elt, env2))
                elif isinstance(v, ast.Call) and dotted(v.func) == 'map' and len(v.args) == 2 \
                        and (dotted(v.args[0]) or '').split('.')[-1] in ('Not', 'And', 'Or'):
                    # *map(sympy.Not, skipped)  ==  *(sympy.Not(c) for c in skipped)
                    op_ = (dotted(v.args[0]) or '').split('.')[-1]
                    for item in _bool_eval(v.args[1], env):
                        args.append((not item) if op_ == 'Not' else item)
                else:
                    args.extend(_bool_eval(v, env))
            else:
                args.append(_bool_eval(a, env))
        if fn == 'And':
            return all(args)
        if fn == 'Or':
            return any(args)
        if fn == 'Not' and len(args) == 1:
            return not args[0]
    raise AnalysisError(f'A8: unsupported boolean construction {unparse(e)[:60]}')


def run_a8_truth(chk, A8, repo):
    """the condition given to a branch value = own condition AND NOT each earlier branch that skipped the symbol"""
    import itertools
    m = repo.module(f'{NMREC}.code_record')
    f = m.functions.get('_parse_tree')
    combos = [n for n in ast.walk(f.node) if isinstance(n, ast.Assign) and isinstance(n.targets[0], ast.Name)
              and isinstance(n.value, ast.Call) and (dotted(n.value.func) or '').endswith('And')
              and any(isinstance(a, ast.Starred) or (isinstance(a, ast.Call) and (dotted(a.func) or '').endswith('Not'))
                      for a in n.value.args)
              and n.targets[0].id in {x.id for x in ast.walk(n.value) if isinstance(x, ast.Name)}]
    if not combos:
        raise AnalysisError('A8: combination of the branch condition with the skipped conditions not found')
    for n in combos:
        own = n.targets[0].id
        lists = {x.id for x in ast.walk(n.value) if isinstance(x, ast.Name)} - {own, 'sympy', 'cond'}
        lists = {x for x in lists if x not in ('And', 'Not', 'Or', 'map', 'list', 'tuple', 'iter')}
        if len(lists) != 1:
            raise AnalysisError(f'A8: cannot identify the list of skipped conditions in {unparse(n)[:80]} ({lists})')
        lst = lists.pop()
        bad = None
        for L, c1, c2 in itertools.product([False, True], repeat=3):
            got = _bool_eval(n.value, {own: L, lst: [c1, c2]})
            want = L and (not c1) and (not c2)
            if got != want:
                bad = (L, c1, c2, got)
        chk.instance(A8, f'`{unparse(n)[:90]}` == own AND NOT c1 AND NOT c2 for all 8 assignments: {bad is None}')
        if bad is not None:
            chk.violation(A8, m.rel, f.qualname, unparse(n)[:120],
                          f'with two skipped branches the condition is wrong (own={bad[0]}, c1={bad[1]}, c2={bad[2]} gives '
                          f'{bad[3]}): the later branch overrides although an earlier branch was taken', line=n.lineno,
                          witness='X defined before; IF (A) ... ELSE IF (B) ... ELSE X = 3 with X untouched by the first two '
                                  'branches, on a record with A true and B false: NM-TRAN keeps X, pharmpy assigns 3')


def run_a10(chk, A10, repo):
    """lists that are zipped by a helper come from the same accumulation level"""
    pm = repo.module('pharmpy.model.external.nonmem.parsing')
    n = 0
    for f in pm.functions.values():
        accs = {a.targets[0].id for a in walk_no_nested(f.node) if isinstance(a, ast.Assign) and len(a.targets) == 1
                and isinstance(a.targets[0], ast.Name) and isinstance(a.value, ast.List) and not a.value.elts}
        for L in [x for x in walk_no_nested(f.node) if isinstance(x, ast.For) and isinstance(x.target, ast.Name)]:
            ext = {c.func.value.id for c in ast.walk(L) if isinstance(c, ast.Call) and isinstance(c.func, ast.Attribute)
                   and c.func.attr == 'extend' and isinstance(c.func.value, ast.Name)} & accs
            if len(ext) < 2:
                continue
            rec = L.target.id
            for c in ast.walk(f.node):
                if not (isinstance(c, ast.Call) and isinstance(c.func, ast.Name) and len(c.args) >= 2):
                    continue
                kinds = []
                for a in c.args:
                    if isinstance(a, ast.Name) and a.id in ext:
                        kinds.append('accumulated')
                    elif isinstance(a, ast.Attribute) and isinstance(a.value, ast.Name) and a.value.id == rec:
                        kinds.append('record')
                    else:
                        kinds.append(None)
                if 'accumulated' not in kinds:
                    continue
                n += 1
                ok = 'record' not in kinds
                chk.instance(A10, f'{f.name}: {unparse(c)[:70]} argument levels {kinds}: consistent {ok}')
                if not ok:
                    chk.violation(A10, pm.rel, f.name, unparse(c)[:100],
                                  'lists accumulated over all records are combined element by element with a list of the '
                                  'current record only: from the second record on the elements do not correspond',
                                  line=c.lineno,
                                  witness='$THETA (0,3) (0.75,0.75,0.75) followed by $THETA (0,20) (0,1,2): THETA(4) is read as '
                                          'fixed')
    if n == 0:
        raise AnalysisError('A10: no helper call over accumulated record lists found in parsing.py')


def run_a11(chk, A11, repo):
    """protected functions (PLOG, PDZ, ...): guard, protected value and regular value as NM-TRAN documents them"""
    import json
    import re as _re
    from sa.report import VERIF
    spec = {k: v for k, v in json.loads((VERIF / 'specs/protected_funcs.json').read_text()).items() if not k.startswith('_')}
    fm = repo.module('pharmpy.internals.expr.funcs')

    def norm(e):
        t = unparse(e)
        t = _re.sub(r'\bsympy\.', '', t)
        t = _re.sub(r'\b(Abs|abs)\(', 'abs(', t)
        t = _re.sub(r'\b_smallz\b', 'SMALLZ', t)
        return t.replace(' ', '')
    for name, want in sorted(spec.items()):
        f = fm.functions.get(name)
        if f is None:
            raise AnalysisError(f'A11: protected function {name} not found in funcs.py')
        x = f.params[0] if f.params else 'x'
        pw = next((c for c in ast.walk(f.node) if isinstance(c, ast.Call) and (dotted(c.func) or '').endswith('Piecewise')), None)
        if pw is None or len(pw.args) != 2 or not all(isinstance(a, ast.Tuple) and len(a.elts) == 2 for a in pw.args):
            raise AnalysisError(f'A11: {name} is not a two-branch Piecewise')
        (val, cond), (other, dflt) = (a.elts for a in pw.args)
        # local temporaries between the operands and the Piecewise (a parametrised helper that was expanded) are resolved
        from sa import reach as _reach
        _cfg = CFG(f.node)
        _at = _reach.node_containing(_cfg, pw)
        if _at is not None:
            val, cond, other, dflt = (_reach.expand_expr(_cfg, _at, e_) for e_ in (val, cond, other, dflt))
        got = {'guard': norm(cond), 'value': norm(val), 'else': norm(other)}
        exp = {k: v.replace('x', x).replace(' ', '') for k, v in want.items()}
        exp = {k: v.replace('e' + x + 'p', 'exp') for k, v in exp.items()}      # 'exp' contains the letter x
        ok = got == exp and isinstance(dflt, ast.Constant) and dflt.value is True
        chk.instance(A11, f'{name}: {got["value"]} if {got["guard"]} else {got["else"]}: as documented {ok}')
        if not ok:
            chk.violation(A11, fm.rel, name, f'{got["value"]} if {got["guard"]} else {got["else"]}',
                          f'NM-TRAN defines {name}(x) = {want["value"]} if {want["guard"]} else {want["else"]}',
                          line=f.node.lineno,
                          witness=f'abbreviated code calling {name} on a value on the other side of the guard (e.g. a '
                                  f'negative argument of PDZ): the model evaluates to another number than NONMEM')


def run_a12(chk, A12, repo):
    """sequential parameters of a BLOCK(n) are placed row by row into the lower triangle (NM-TRAN's order, which is also the
    order the parameter names were generated in): the iteration space of the filling loop for n = 3 is enumerated"""
    from sa import iterspace
    pm = repo.module('pharmpy.model.external.nonmem.parsing')
    f = pm.functions.get('rvs_from_blocks')
    if f is None:
        raise AnalysisError('rvs_from_blocks not found')
    n_found = 0
    # symmetric stores M[a, b] = s together with M[b, a] = s in one loop body
    for loop in [x for x in ast.walk(f.node) if isinstance(x, ast.For)]:
        stores = [s_ for s_ in loop.body if isinstance(s_, ast.Assign) and isinstance(s_.targets[0], ast.Subscript)
                  and isinstance(s_.targets[0].slice, ast.Tuple) and len(s_.targets[0].slice.elts) == 2]
        pairs = {(unparse(s_.targets[0].value), unparse(s_.targets[0].slice.elts[0]), unparse(s_.targets[0].slice.elts[1]))
                 for s_ in stores}
        sym = [(m, a, b) for (m, a, b) in pairs if (m, b, a) in pairs and a != b]
        if not sym:
            continue
        m, a, b = sorted(sym)[0]
        # the stored value is read from a sequence by position (a counter advanced in the body, or an enumerate offset)
        consumes = any(isinstance(s_, ast.AugAssign) and isinstance(s_.op, ast.Add) for s_ in loop.body) or any(
            isinstance(x, ast.Subscript) and isinstance(x.ctx, ast.Load) for s_ in loop.body if isinstance(s_, ast.Assign)
            for x in ast.walk(s_.value))
        if not consumes:
            continue
        # the nest: this loop and the enclosing loops that bind a / b
        nest = [loop]
        cur = loop
        while True:
            bound = {x.id for l_ in nest for x in ast.walk(l_.target) if isinstance(x, ast.Name)}
            if {a, b} <= bound:
                break
            parent = next((p for p in ast.walk(f.node) if isinstance(p, ast.For) and cur in p.body), None)
            if parent is None:
                break
            nest.insert(0, parent)
            cur = parent
        size_names = {x.id for l_ in nest for x in ast.walk(l_.iter) if isinstance(x, ast.Name)} - \
            {x.id for l_ in nest for x in ast.walk(l_.target) if isinstance(x, ast.Name)}
        # a loop header that names a local iterable built just before (`pairs = ((r, c) for r in ..); for .. in pairs`)
        import copy as _copy
        local_iters = {}
        for nm in list(size_names):
            defs = [s_.value for s_ in ast.walk(f.node) if isinstance(s_, ast.Assign) and len(s_.targets) == 1
                    and isinstance(s_.targets[0], ast.Name) and s_.targets[0].id == nm]
            if len(defs) == 1 and isinstance(defs[0], (ast.GeneratorExp, ast.ListComp, ast.Call)):
                local_iters[nm] = defs[0]
        if local_iters:
            class _S(ast.NodeTransformer):
                def visit_Name(self, n_):
                    return _copy.deepcopy(local_iters[n_.id]) if n_.id in local_iters else n_
            nest = [_copy.copy(l_) for l_ in nest]
            for l_ in nest:
                l_.iter = _S().visit(_copy.deepcopy(l_.iter))
            size_names = {x.id for l_ in nest for x in ast.walk(l_.iter) if isinstance(x, ast.Name)} - \
                {x.id for l_ in nest for x in ast.walk(l_.target) if isinstance(x, ast.Name)} - \
                {x.id for l_ in nest for g_ in ast.walk(l_.iter) if isinstance(g_, ast.comprehension)
                 for x in ast.walk(g_.target) if isinstance(x, ast.Name)} - set(iterspace.FUNCS)
        try:
            envs = iterspace.iterations(nest, {nm: 3 for nm in size_names})
        except iterspace.Unknown as e:
            raise AnalysisError(f'A12: iteration space of the block filling loop not evaluable ({e})')
        seq = [(max(e_[a], e_[b]), min(e_[a], e_[b])) for e_ in envs]
        want = [(i, j) for i in range(3) for j in range(i + 1)]
        n_found += 1
        ok = seq == want
        chk.instance(A12, f'rvs_from_blocks: `{m}[{a}, {b}]` filled in the order {seq} for n=3 (row-wise lower triangle: {ok})')
        if not ok:
            chk.violation(A12, pm.rel, f.qualname, f'for {unparse(nest[0].target)} in {unparse(nest[0].iter)}: {m}[{a}, {b}] = ...',
                          f'the parameters of a BLOCK(n) come in NM-TRAN order (row by row of the lower triangle: {want}); '
                          f'they are placed in the order {seq}', line=nest[0].lineno,
                          witness='$OMEGA BLOCK(3) 1 0.1 2 0.2 0.3 3: OMEGA(2,2) becomes cov(ETA1, ETA3); with n <= 2 the '
                                  'two orders coincide')
    if n_found == 0:
        raise AnalysisError('A12: symmetric filling loop of rvs_from_blocks not found')


def run_a13(chk, A13, repo):
    """$MODEL defaults: the default dose compartment is DEFDOSE, else the compartment named DEPOT, else the first that may
    receive a dose; the default observation compartment is DEFOBS, else CENTRAL, else the first (NM-TRAN's precedence)"""
    am = repo.module('pharmpy.model.external.nonmem.advan')
    f = am.functions.get('parse_model_record')
    if f is None:
        raise AnalysisError('parse_model_record not found')
    f = repo.follow_delegation(f)       # the logic may live in a method of the record that the function hands over to
    am = f.module
    # variables that remember the compartment with a given name / option
    by_name = {}
    for I in [x for x in ast.walk(f.node) if isinstance(x, ast.If)]:
        for c in [x for x in ast.walk(I.test) if isinstance(x, ast.Compare) and len(x.ops) == 1]:
            lit = c.comparators[0].value if isinstance(c.comparators[0], ast.Constant) else (
                c.left.value if isinstance(c.left, ast.Constant) else None)
            if isinstance(lit, str) and isinstance(c.ops[0], (ast.Eq, ast.In)):
                for s_ in I.body:
                    if isinstance(s_, ast.Assign) and isinstance(s_.targets[0], ast.Name):
                        by_name.setdefault(lit, s_.targets[0].id)
    need = {'DEPOT': 'DEFDOSE', 'CENTRAL': 'DEFOBSERVATION'}
    if not all(k in by_name for k in list(need) + list(need.values())):
        raise AnalysisError(f'A13: compartment bookkeeping of parse_model_record not recognised ({sorted(by_name)})')

    class Raised(Exception):
        pass

    def ev(e, env):
        if isinstance(e, ast.Constant):
            return e.value
        if isinstance(e, ast.Name):
            return env.get(e.id, f'<{e.id}>')
        if isinstance(e, ast.IfExp):
            return ev(e.body, env) if truth(e.test, env) else ev(e.orelse, env)
        if isinstance(e, ast.BoolOp) and isinstance(e.op, ast.Or):
            for v in e.values:
                r = ev(v, env)
                if r:
                    return r
            return r
        return f'<{unparse(e)[:30]}>'

    def truth(t, env):
        if isinstance(t, ast.Compare) and len(t.ops) == 1 and isinstance(t.ops[0], (ast.Is, ast.IsNot)) \
                and isinstance(t.comparators[0], ast.Constant) and t.comparators[0].value is None:
            isnone = ev(t.left, env) is None
            return isnone if isinstance(t.ops[0], ast.Is) else not isnone
        if isinstance(t, ast.UnaryOp) and isinstance(t.op, ast.Not):
            return not truth(t.operand, env)
        if isinstance(t, ast.BoolOp):
            vals = [truth(v, env) for v in t.values]
            return all(vals) if isinstance(t.op, ast.And) else any(vals)
        return bool(ev(t, env))

    def run(stmts, env):
        for s_ in stmts:
            if isinstance(s_, ast.If):
                run(s_.body if truth(s_.test, env) else s_.orelse, env)
            elif isinstance(s_, ast.Assign) and isinstance(s_.targets[0], ast.Name):
                env[s_.targets[0].id] = ev(s_.value, env)
            elif isinstance(s_, ast.Raise):
                raise Raised
    # the statements after the loop over the compartments
    loop = next((x for x in f.node.body if isinstance(x, ast.For)), None)
    if loop is None:
        raise AnalysisError('A13: loop over the compartments not found')
    tail = f.node.body[f.node.body.index(loop) + 1:]
    for named, explicit in need.items():
        target = by_name[explicit]        # defdose / defobs
        # explicit option absent, every other candidate present: the named compartment must win
        env = {target: None}
        for v in set(by_name.values()) | {x.id for s_ in tail for x in ast.walk(s_) if isinstance(x, ast.Name)}:
            env.setdefault(v, f'<{v}>')
        env[target] = None
        env[by_name[named]] = f'<the compartment named {named}>'
        try:
            run(tail, env)
            got = env[target]
        except Raised:
            got = 'raise'
        ok = got == f'<the compartment named {named}>'
        chk.instance(A13, f'no {explicit}: default is {got}')
        if not ok:
            chk.violation(A13, am.rel, f.qualname, f'{target} defaults to {got}',
                          f'without {explicit} NM-TRAN takes the compartment named {named} first, then the first eligible one',
                          line=f.node.lineno,
                          witness=f'$MODEL COMP=(CENTRAL) COMP=(DEPOT) without DEFDOSE and without a CMT column: doses go '
                                  f'to CENTRAL and bypass the absorption')
        # explicit option present: it wins
        env2 = dict(env)
        env2[target] = f'<explicit {explicit}>'
        try:
            run(tail, env2)
            got2 = env2[target]
        except Raised:
            got2 = 'raise'
        chk.instance(A13, f'{explicit} given: {got2}')
        if got2 != f'<explicit {explicit}>':
            chk.violation(A13, am.rel, f.qualname, f'{target} = {got2} although {explicit} is given',
                          f'an explicit {explicit} is overridden', line=f.node.lineno,
                          witness=f'$MODEL with {explicit} on a compartment other than {named}')


def run_a14(chk, A14, repo):
    """Rn / Dn (modelled rate / duration of compartment n) are named with the integer compartment number: the number may come
    from the CMT data column, which is read as float"""
    am = repo.module('pharmpy.model.external.nonmem.advan')
    n = 0
    for f in am.functions.values():
        sites = [j for j in ast.walk(f.node) if isinstance(j, ast.JoinedStr) and len(j.values) == 2
                 and isinstance(j.values[0], ast.Constant) and j.values[0].value in ('R', 'D')
                 and isinstance(j.values[1], ast.FormattedValue)]
        if not sites:
            continue
        cfg = CFG(f.node)
        from sa import reach as _reach
        for j in sites:
            v = j.values[1].value
            n += 1

            def is_int(e):
                return isinstance(e, ast.Call) and dotted(e.func) == 'int'
            ok = is_int(v) or j.values[1].format_spec is not None and 'd' in unparse(j.values[1].format_spec)
            if not ok and isinstance(v, ast.Name):
                at = _reach.node_containing(cfg, j)
                found, entry = _reach.reaching(cfg, at, v.id) if at is not None else (set(), True)
                vs = _reach.values(cfg, at, v.id) if at is not None else None
                # every definition that reaches the use is an int(..) conversion (the parameter itself must not reach it), or
                # the name is bound by range() / enumerate()
                ok = bool(vs) and not entry and all(is_int(val) for _d, val in vs)
                if not ok:
                    ok = any(isinstance(L, ast.For) and v.id in {x.id for x in ast.walk(L.target) if isinstance(x, ast.Name)}
                             and isinstance(L.iter, ast.Call) and dotted(L.iter.func) in ('range', 'enumerate')
                             for L in ast.walk(f.node))
            chk.instance(A14, f'{f.name}: `{unparse(j)}` is formatted from an integer: {ok}')
            if not ok:
                chk.violation(A14, am.rel, f.name, unparse(j),
                              'the compartment number is data derived (the CMT column is read as float): the symbol becomes '
                              'R2.0 / D2.0, which no $PK statement defines', line=j.lineno,
                              witness='a dose record with CMT=2 RATE=-2 and D2 defined in $PK: the infusion duration of the read '
                                      'model is the undefined symbol D2.0 (findings/C01_cmt_modelled_duration_demo.py)')
    if n == 0:
        raise AnalysisError('A14: no R<n> / D<n> symbol construction found in advan.py')


def run_a15_a16(chk, repo):
    """A15: in dosing() the kind of dose of a compartment is decided from the dose records of that compartment (every _dosing
    call inside a loop over the CMT values gets a subset that was filtered on CMT == <loop value>); A16: for $DES models A(i)
    of $ERROR is the i-th compartment of $MODEL, not the i-th amount of pharmpy's canonical order"""
    from sa import reach, guards as G_
    A15 = chk.rule('A15', 'dosing(): inside a loop over the CMT values, _dosing() gets the records filtered on that CMT value',
                   floor=2)
    am = repo.module('pharmpy.model.external.nonmem.advan')
    if am.functions.get('dosing') is None:
        raise AnalysisError('advan.dosing not found')
    dn = getattr(am.functions.get('_dosing'), 'name', '_dosing')       # present name of the helper that decides the dose kind
    n15 = 0
    # the loops over the CMT values may sit in dosing() itself or in a helper / generator it hands over to
    for f in list(dict.values(am.functions)):
        loops15 = [x for x in ast.walk(f.node) if isinstance(x, ast.For) and isinstance(x.target, ast.Name)
                   and "'CMT'" in unparse(x.iter)]
        if not loops15:
            continue
        cfg = CFG(f.node)
        for L in loops15:
            lv = L.target.id
            for c in [x for x in ast.walk(L) if isinstance(x, ast.Call) and dotted(x.func) == dn and len(x.args) >= 2]:
                n15 += 1
                at = reach.node_containing(cfg, c)
                data = reach.expand_expr(cfg, at, c.args[1]) if at is not None else c.args[1]
                # a comparison `<frame>['CMT'] == <loop value>` somewhere in the (expanded) subset expression
                ok = any(isinstance(t, ast.Compare) and len(t.ops) == 1 and isinstance(t.ops[0], ast.Eq)
                         and "'CMT'" in unparse(t.left) + unparse(t.comparators[0])
                         and lv in {x.id for x in ast.walk(t) if isinstance(x, ast.Name)} for t in ast.walk(data))
                chk.instance(A15, f'{f.name}: `{unparse(c)[:70]}` in the loop over CMT values sees only that compartment\'s records: {ok}')
                if not ok:
                    chk.violation(A15, am.rel, f.name, unparse(c)[:100],
                                  'the dose kind (bolus, infusion with data RATE, modelled rate Rn / duration Dn) of a compartment is '
                                  'decided from the records of all compartments', line=c.lineno,
                                  witness='an oral bolus into CMT 1 and an infusion (RATE>0) into CMT 2: the depot is read as '
                                          'Infusion(AMT, rate=RATE)')
    if n15 == 0:
        raise AnalysisError('A15: no _dosing call inside a loop over the CMT values found')
    A16 = chk.rule('A16', 'parse_statements: for a $DES model A(i) / A_0(i) are bound to the i-th compartment of the $MODEL '
                          'record', floor=1)
    pm = repo.module('pharmpy.model.external.nonmem.parsing')
    g = pm.functions.get('parse_statements')
    if g is None:
        raise AnalysisError('parse_statements not found')
    gcfg = CFG(g.node)

    def is_des(e):
        return True if isinstance(e, ast.Name) and e.id == 'des' else None
    sites = []
    for nd in gcfg.nodes.values():
        a = nd.ast
        if nd.kind == 'stmt' and isinstance(a, ast.Assign) and isinstance(a.targets[0], ast.Subscript) \
                and any(isinstance(j, ast.JoinedStr) and j.values and isinstance(j.values[0], ast.Constant)
                        and j.values[0].value.startswith('A(') for j in ast.walk(a.targets[0].slice)):
            loop = next((L for L in ast.walk(g.node) if isinstance(L, ast.For) and any(x is a for x in ast.walk(L))), None)
            if loop is None:
                continue
            # what the loop enumerates, through the locals it is computed from (also inside comprehensions)
            txt, seen, todo = unparse(loop.iter), set(), [x.id for x in ast.walk(loop.iter) if isinstance(x, ast.Name)]
            while todo and len(seen) < 12:
                nm = todo.pop()
                if nm in seen:
                    continue
                seen.add(nm)
                vals = reach.values(gcfg, nd.id, nm)
                if not vals:
                    # defined under an earlier `if des:` only (possibly unbound on the other path): all its definitions
                    vals = [(None, a_.value) for a_ in ast.walk(g.node) if isinstance(a_, ast.Assign)
                            and any(isinstance(t_, ast.Name) and t_.id == nm for t_ in a_.targets)]
                for _d, v in vals:
                    txt += ' ' + unparse(v)
                    todo += [x.id for x in ast.walk(v) if isinstance(x, ast.Name)]
            from_model = "'MODEL'" in txt and 'compartments' in txt
            lab = None
            for t in [n_ for n_ in gcfg.nodes.values() if n_.kind == 'test' and n_.ast is not None]:
                l_ = G_.edge_label(t.ast, is_des, G_.resolver(gcfg, t.id))
                if l_ and gcfg.edge_dominates(t.id, l_, nd.id):
                    lab = 'des'
                l2 = 'false' if l_ == 'true' else 'true' if l_ == 'false' else None
                if l2 and gcfg.edge_dominates(t.id, l2, nd.id):
                    lab = 'not des'
            sites.append((nd, from_model, lab))
    if not sites:
        raise AnalysisError('A16: binding of A(i) in parse_statements not found')
    for nd, from_model, lab in sites:
        ok = from_model if lab == 'des' else (lab == 'not des' or from_model)
        chk.instance(A16, f'parse_statements: `{nd.text()[:60]}` (path: {lab or "any"}) numbered by the $MODEL record: {from_model}')
        if not ok:
            chk.violation(A16, pm.rel, g.name, nd.text()[:90],
                          'on a path that $DES models take, A(i) is numbered by pharmpy\'s canonical compartment order instead of '
                          'the order of the $MODEL record', line=nd.line,
                          witness='$MODEL COMP=(CENTRAL DEFOBS) COMP=(DEPOT DEFDOSE) with $DES: CONC = A(1)/V is read as '
                                  'A_DEPOT/V')
    if not any(lab == 'des' and fm for _n, fm, lab in sites):
        chk.violation(A16, pm.rel, g.name, 'no binding of A(i) from the $MODEL record on the $DES path',
                      'A(i) of a $DES model must follow the $MODEL record', line=g.node.lineno,
                      witness='$MODEL COMP=(CENTRAL DEFOBS) COMP=(DEPOT DEFDOSE) with $DES: CONC = A(1)/V is read as A_DEPOT/V')


def run_a17(chk, A17, repo):
    """ADVAN5/7 rate constants K<i><j> / K<i>T<j>: every pair of existing compartments is accepted, and the output compartment
    may be addressed as 0 or by its own number (n + 1): a guard that skips "impossible" indices must not skip these"""
    from sa import iterspace as IS
    am = repo.module('pharmpy.model.external.nonmem.advan')
    f = am.functions.get('_find_rates')
    if f is None:
        raise AnalysisError('_find_rates not found')
    # the number of compartments (output included) is the second parameter, whatever it is called
    ncp = next((p for p in f.params if 'ncomp' in p), None) or (f.params[1] if len(f.params) >= 2 else None)
    if ncp is None:
        raise AnalysisError('A17: parameter with the number of compartments not found in _find_rates')
    guards_ = [I for I in ast.walk(f.node) if isinstance(I, ast.If) and I.body and all(isinstance(s_, ast.Continue) for s_ in I.body)
               and ncp in {x.id for x in ast.walk(I.test) if isinstance(x, ast.Name)}]
    chk.instance(A17, f'_find_rates: {len(guards_)} guard(s) that skip a rate constant by its compartment numbers')
    for I in guards_:
        names_ = sorted({x.id for x in ast.walk(I.test) if isinstance(x, ast.Name)} - {ncp})
        if len(names_) != 2:
            raise AnalysisError(f'A17: guard `{unparse(I.test)[:60]}` not understood')
        # which name is the source: the one compared with 0 for equality, or the first in the text
        a, b = names_
        frm = a if f'{a} == 0' in unparse(I.test) or 'from' in a else b if 'from' in b else a
        to = b if frm == a else a
        skipped = []
        for fn_ in range(1, 4):
            for tn in range(0, 5):
                if tn == fn_:
                    continue
                try:
                    if IS.ev_x(I.test, {ncp: 4, frm: fn_, to: tn}):
                        skipped.append((fn_, tn))
                except Exception as ex:
                    raise AnalysisError(f'A17: guard not evaluable: {ex}')
        ok = not skipped
        chk.instance(A17, f'_find_rates: `if {unparse(I.test)[:60]}: continue` with 3 compartments + output skips {skipped}: {ok}')
        if not ok:
            chk.violation(A17, am.rel, f.name, f'if {unparse(I.test)[:70]}: continue',
                          f'legal rate constants {skipped} (source, destination; 4 = the output compartment addressed by its '
                          f'number) are silently dropped', line=I.lineno,
                          witness='$MODEL with three compartments and K24 = CL/V: the central compartment has no elimination')


def interpreter_handler_value(repo, crm, ei, rule):
    """the expression a rule handler of ExpressionInterpreter returns: `def rule(self, _): return V`, `rule = lambda self, _: V`
    or `rule = factory(V)` with factory(value) returning a function that returns `value`. None when there is no handler (or
    it is not of these shapes)"""
    m = repo.find_method(ei, rule)
    if m is not None:
        rets = [n.value for n in walk_no_nested(m.node) if isinstance(n, ast.Return) and n.value is not None]
        return rets[0] if len(rets) == 1 else None
    for st in ei.node.body:
        if isinstance(st, ast.Assign) and any(isinstance(t, ast.Name) and t.id == rule for t in st.targets):
            v = st.value
            if isinstance(v, ast.Lambda):
                return v.body
            if isinstance(v, ast.Call) and isinstance(v.func, ast.Name) and len(v.args) == 1 and not v.keywords:
                g = crm.functions.get(v.func.id)
                if g is not None and len(g.params) == 1:
                    inner = [x for x in g.node.body if isinstance(x, ast.FunctionDef)]
                    outer_ret = [x.value for x in g.node.body if isinstance(x, ast.Return)]
                    if len(inner) == 1 and len(outer_ret) == 1 and isinstance(outer_ret[0], ast.Name) \
                            and outer_ret[0].id == inner[0].name:
                        irets = [x.value for x in walk_no_nested(inner[0]) if isinstance(x, ast.Return)]
                        if len(irets) == 1 and isinstance(irets[0], ast.Name) and irets[0].id == g.params[0]:
                            return v.args[0]
    return None


def run_theta_sentinels(chk, repo, rid):
    """NM-TRAN reads a lower bound of -1000000 and an upper bound of 1000000 as "no bound". The digits are lexed as an ordinary
    NUMERIC (the NEG_INF / POS_INF terminals only match the words), so every place that turns the raw bound token of a theta
    into a bound (the reader `bounds`, and the writer `update`, which compares the written bound with the parameter's to keep
    the spelling of an unchanged bound) has to compare the token value with MIN_LOWER_BOUND / MAX_UPPER_BOUND itself"""
    R = chk.rule(rid, 'ThetaRecord: where a raw bound token is turned into a bound (mapped to +-infinity) it is compared for '
                      'equality with the sentinel -1000000 / 1000000', floor=4)
    tm = repo.module('pharmpy.model.external.nonmem.records.theta_record')
    SENT = {'upper_token': ('MAX_UPPER_BOUND', 1000000), 'lower_token': ('MIN_LOWER_BOUND', -1000000)}

    def const_is(e, name, val):
        if isinstance(e, ast.Name) and e.id == name:
            return True
        if isinstance(e, ast.Attribute) and e.attr == name:
            return True
        try:
            v = ast.literal_eval(e)
            return isinstance(v, (int, float)) and float(v) == float(val)
        except Exception:
            return False

    def compares(fnode, names_, name, val):
        for c in ast.walk(fnode):
            if isinstance(c, ast.Compare) and len(c.ops) == 1 and isinstance(c.ops[0], (ast.Eq, ast.GtE, ast.LtE, ast.In)):
                sides = [c.left, c.comparators[0]]
                has_tok = any((isinstance(x, ast.Name) and x.id in names_) or (
                    isinstance(x, ast.Call) and dotted(x.func) in SENT) for x in sides)
                has_const = any(const_is(x, name, val) for x in sides) or any(
                    isinstance(x, (ast.Tuple, ast.Set, ast.List)) and any(const_is(e, name, val) for e in x.elts) for x in sides)
                if has_tok and has_const:
                    return True
        return False
    n = 0
    for f in dict.values(tm.functions):
        if f.name in SENT:
            continue
        src_ = unparse(f.node)
        if 'INF' not in src_ and "float('inf')" not in src_ and 'math.inf' not in src_:
            continue
        own_nested = [g_ for g_ in ast.walk(f.node) if isinstance(g_, ast.FunctionDef) and g_ is not f.node]
        for helper, (cname, val) in SENT.items():
            calls = [c for c in ast.walk(f.node) if isinstance(c, ast.Call) and dotted(c.func) == helper
                     and not any(c is x for g_ in own_nested for x in ast.walk(g_))]
            if not calls:
                continue
            toks = {a.targets[0].id for a in ast.walk(f.node) if isinstance(a, ast.Assign) and len(a.targets) == 1
                    and isinstance(a.targets[0], ast.Name) and isinstance(a.value, ast.Call) and dotted(a.value.func) == helper}
            n += 1
            hf = tm.functions.get(helper)
            ok = compares(f.node, toks, cname, val) or (hf is not None and any(
                const_is(x, cname, val) for x in ast.walk(hf.node)))
            chk.instance(R, f'{f.qualname}: {helper}(..) compared with {cname}: {ok}')
            if not ok:
                chk.violation(R, tm.rel, f.qualname, f'{helper}(theta) never compared with {cname}',
                              f'a bound written as {val} (or 1E6) is an ordinary NUMERIC token: without the comparison it is '
                              f'taken as a finite bound', line=calls[0].lineno,
                              witness='$THETA (-1000000,1,1000000): the parameter gets finite bounds +-1000000 instead of none; '
                                      '$THETA (0,2,1000000) (0,3) and an edit of the second theta: the first is rewritten '
                                      'to (0,2)')
    if n < 4:
        raise AnalysisError(f'{rid}: only {n} bound-token conversions found in theta_record.py')


def run_a19(chk, repo):
    """A19: whether an IF without a matching branch keeps the previous value of a variable depends on 'was the variable assigned
    before?'. code_record._parse_tree answers it from the list of statements read so far. If a separate summary of the assigned
    symbols is kept beside that list (a set tested with `in`), the two must move together: every block that extends the
    statement list also updates the summary - otherwise a variable first assigned inside a block IF counts as never assigned
    and loses its fall-through value in a later IF."""
    A19 = chk.rule('A19', 'code_record._parse_tree: the statements read so far and any summary of the symbols assigned so far are '
                          'extended together', floor=3)
    m = repo.module('pharmpy.model.external.nonmem.records.code_record')
    f = m.functions.get('_parse_tree')
    if f is None:
        raise AnalysisError('A19: _parse_tree not found')

    def ext_sites(name):
        out = []
        for holder in ast.walk(f.node):
            for fld in ('body', 'orelse', 'finalbody'):
                stmts = getattr(holder, fld, None)
                if not isinstance(stmts, list):
                    continue
                for s_ in stmts:
                    hit = (isinstance(s_, ast.Expr) and isinstance(s_.value, ast.Call) and isinstance(s_.value.func, ast.Attribute)
                           and s_.value.func.attr in ('append', 'extend', 'insert', 'add', 'update')
                           and isinstance(s_.value.func.value, ast.Name) and s_.value.func.value.id == name) \
                        or (isinstance(s_, ast.AugAssign) and isinstance(s_.target, ast.Name) and s_.target.id == name)
                    if hit:
                        out.append((stmts, s_))
        return out
    ret_names = {n.id for r in ast.walk(f.node) if isinstance(r, ast.Return) and r.value is not None
                 for n in ast.walk(r.value) if isinstance(n, ast.Name)}
    lists = [a_.targets[0].id for a_ in f.node.body if isinstance(a_, ast.Assign) and len(a_.targets) == 1
             and isinstance(a_.targets[0], ast.Name) and isinstance(a_.value, ast.List) and not a_.value.elts
             and a_.targets[0].id in ret_names]
    stat_lists = [n for n in lists if any(isinstance(s_.value.args[0] if isinstance(s_, ast.Expr) and s_.value.args else None,
                                                      ast.Name) and 'ass' in s_.value.args[0].id for _, s_ in ext_sites(n)
                                          if isinstance(s_, ast.Expr))]
    if not stat_lists:
        raise AnalysisError('A19: the list of statements read so far was not found in _parse_tree')
    summaries = {a_.targets[0].id for a_ in ast.walk(f.node) if isinstance(a_, ast.Assign) and len(a_.targets) == 1
                 and isinstance(a_.targets[0], ast.Name) and (
                     (isinstance(a_.value, ast.Call) and dotted(a_.value.func) in ('set', 'dict') and not a_.value.args)
                     or (isinstance(a_.value, (ast.Dict, ast.Set)) and not getattr(a_.value, 'keys', getattr(a_.value, 'elts', []))))}
    summaries = {d for d in summaries if any(isinstance(c, ast.Compare) and len(c.ops) == 1 and isinstance(c.ops[0], (ast.In, ast.NotIn))
                                             and isinstance(c.comparators[0], ast.Name) and c.comparators[0].id == d
                                             for c in ast.walk(f.node)) and ext_sites(d)}
    for sl in stat_lists:
        sites = ext_sites(sl)
        # only summaries that are updated next to this list somewhere belong to it
        mine = {d for d in summaries if any(any(b is st for b, _ in [(x, None) for x in blk]) for blk, st in ext_sites(d)
                                           if any(blk is blk2 for blk2, _ in sites))}
        for blk, st in sites:
            missing = [d for d in sorted(mine) if not any(blk is blk_d for blk_d, _ in ext_sites(d))]
            ok = not missing
            chk.instance(A19, f'_parse_tree: {unparse(st)[:50]}: summaries kept beside `{sl}`: {sorted(mine) or "none (the list itself is scanned)"}: '
                              f'extended together: {ok}')
            if not ok:
                chk.violation(A19, m.rel, f.qualname, f'{unparse(st)[:50]} without {missing[0]}.add/update',
                              f'`{missing[0]}` summarises the symbols assigned so far but is not updated where the statements of '
                              f'this construct are added: a later IF takes these variables for never assigned and drops their '
                              f'fall-through value', line=st.lineno,
                              witness='IF (A) THEN; X=1; ELSE; X=2; ENDIF followed by IF (B) X=3: X is undefined when B is false')
