"""C13 Datasets are read by NM-TRAN's rules: R1 filter operator table and per-filter defaults, R2 item
conversion constants, R3 writer/reader agreement, R4 separator regex."""
from __future__ import annotations

import ast
import json
import re._parser as sre_parse

from sa import grammar as G
from sa.cfg import CFG
from sa.report import AnalysisError, VERIF
from sa.srcmodel import unparse, walk_no_nested, calls_in, dotted

DS = 'pharmpy.model.external.nonmem.dataset'


def names(node):
    return {n.id for n in ast.walk(node) if isinstance(n, ast.Name)}




def data_update_host(repo):
    """the function that rewrites the $DATA record: nonmem Model.update_source, or the function it hands that block to"""
    mm = repo.module('pharmpy.model.external.nonmem.model')
    us = mm.classes['Model'].methods.get('update_source')
    if us is None:
        raise AnalysisError('nonmem Model.update_source not found')

    def has(fn, attr):
        return any(isinstance(c, ast.Call) and isinstance(c.func, ast.Attribute) and c.func.attr == attr for c in ast.walk(fn.node))
    if has(us, 'set_filename'):
        return us
    for c in calls_in(us.node):
        if isinstance(c.func, ast.Name):
            r = repo.resolve(mm, c.func.id)
            if r and r[0] == 'func' and has(r[1], 'set_filename'):
                return r[1]
    raise AnalysisError('$DATA update (set_filename) not found in update_source or a function it calls')

def regex_uses(m, f):
    """(call, method, pattern text) for every regex applied in function f: re.match(r'..', s) as well as NAME.match(s) with NAME a
    module-level (or local) re.compile(r'..')"""
    out = []
    comp = {}
    for scope in (m.tree.body, list(ast.walk(f.node))):
        for a in scope:
            if isinstance(a, ast.Assign) and len(a.targets) == 1 and isinstance(a.targets[0], ast.Name) \
                    and isinstance(a.value, ast.Call) and dotted(a.value.func) == 're.compile' and a.value.args \
                    and isinstance(a.value.args[0], ast.Constant) and isinstance(a.value.args[0].value, str):
                comp[a.targets[0].id] = a.value.args[0].value
    for c in calls_in(f.node):
        fn = dotted(c.func) or ''
        meth = fn.split('.')[-1]
        if meth not in ('match', 'fullmatch', 'search'):
            continue
        if fn.startswith('re.') and c.args and isinstance(c.args[0], ast.Constant) and isinstance(c.args[0].value, str):
            out.append((c, meth, c.args[0].value))
        elif isinstance(c.func, ast.Attribute) and isinstance(c.func.value, ast.Name) and c.func.value.id in comp:
            out.append((c, meth, comp[c.func.value.id]))
    return out

def run(chk, repo, tier):
    dm = repo.module(DS)
    rel = dm.rel
    chk.explanation = (
        'R1: the IGNORE/ACCEPT operator table (surface operator -> grammar token -> pandas comparison and str/float '
        'operand) composed from the embedded grammar and the token dispatch chain equals the NM-TRAN table in '
        'specs/filter_ops.json, every token type has a branch, and the per-filter defaults are re-established for each '
        'filter of the list. R2: NULL for None/./empty, the 24 character limit with strict >, lone sign = 0, D exponents '
        'and a+b forms. R3: every path of update_source that points $DATA at a rewritten dataset first sets the ignore '
        'character from the header and regenerates $INPUT; write_csv writes the whole dataset with header, without '
        'index, with the missing data token. R4: no alternative of the separator regex can consume two delimiters. NOT '
        'decided: padding/truncation, pandas parsing, the comment regexes (docs and NM-TRAN disagree about @).')
    R1 = chk.rule('R1', 'filter operator table == NM-TRAN table; token dispatch exhaustive; defaults per filter', floor=16)
    R2 = chk.rule('R2', 'item conversion constants (NULL forms, 24 character limit, lone sign, D exponent)', floor=5)
    R3 = chk.rule('R3', 'rewritten dataset: $DATA update passes set_ignore_character_from_header and update_input; '
                        'write_csv writes all columns, header, no index, missing token', floor=3)
    R4 = chk.rule('R4', 'each alternative of the data separator regex matches at most one comma/TAB', floor=3)

    spec = json.loads((VERIF / 'specs/filter_ops.json').read_text())
    fi = dm.functions.get('_filter_ignore_accept')
    if fi is None:
        raise AnalysisError('_filter_ignore_accept not found')
    # ---------------------------------------------------------------- R1
    gtext = None
    for n in walk_no_nested(fi.node):
        if isinstance(n, ast.Assign) and isinstance(n.targets[0], ast.Name) and n.targets[0].id == 'grammar' \
                and isinstance(n.value, ast.Constant):
            gtext = n.value.value
    if gtext is None:
        raise AnalysisError('embedded filter grammar not found')
    L = G.load_text(gtext, start='start', keep_all_tokens=False, lexer='contextual')
    tdefs = G.terminal_defs(L)
    op_tokens = [t for t in tdefs if t.startswith('OP_')]
    surface = {}
    for t in op_tokens:
        alts = G.literal_alternatives(L, t)
        if alts is None:
            raise AnalysisError(f'filter terminal {t} is not an alternation of literals')
        for a in alts:
            surface[a] = t
    # dispatch on the token type -> operator / operator_type, as an if-chain or as a table lookup
    from sa.tables import const_dispatch
    dispatch = {}
    for tok, vars_ in const_dispatch(fi.node, dm).items():
        if not (isinstance(tok, str) and tok.startswith('OP_')):
            continue
        # the two variables are recognised by what they hold (a comparison operator / the type str or float), not by their
        # names: an inlined helper carries its locals under other names
        op = next((v for v in vars_.values() if isinstance(v, ast.Constant) and v.value in ('==', '!=', '<', '>', '<=', '>=')),
                  vars_.get('operator'))
        tpv = next((v for v in vars_.values() if isinstance(v, ast.Name) and v.id in ('str', 'float', 'int')),
                   vars_.get('operator_type'))
        dispatch[tok] = (op.value if isinstance(op, ast.Constant) else None, tpv.id if isinstance(tpv, ast.Name) else None)
    for t in sorted(op_tokens):
        chk.instance(R1, f'token {t}: dispatch {dispatch.get(t)}')
        if t not in dispatch or None in dispatch[t]:
            chk.violation(R1, rel, fi.qualname, f'no complete branch for token {t}',
                          'a filter operator of the grammar has no comparison assigned (the previous/default operator is '
                          'used silently)', line=fi.node.lineno,
                          witness=f'IGNORE=(COL{[k for k, v in surface.items() if v == t][0]}1) filters with the default '
                                  f'text equality instead')
    for sop, want in sorted(spec['operators'].items()):
        tok = surface.get(sop.upper())
        got = dispatch.get(tok) if tok else None
        chk.instance(R1, f'operator {sop} -> {tok} -> {got}')
        if tok is None:
            chk.violation(R1, rel, fi.qualname, f'operator {sop} not in the filter grammar',
                          'a documented IGNORE/ACCEPT operator is not accepted', line=fi.node.lineno,
                          witness=f'$DATA ... IGNORE=(WGT{sop}1) raises a parse error')
        elif got is None or list(got) != want:
            chk.violation(R1, rel, fi.qualname, f'{sop} -> {got}',
                          f'operator {sop} means {want} under NM-TRAN rules', line=fi.node.lineno,
                          witness=f'IGNORE=(COL{sop}x): rows are filtered with {"text" if want[1] == "float" else "numeric"} '
                                  f'comparison / the wrong relation')
    extra = set(surface) - {k.upper() for k in spec['operators']}
    for e in sorted(extra):
        chk.violation(R1, rel, fi.qualname, f'grammar accepts operator {e}', 'an operator NM-TRAN does not have is accepted',
                      line=fi.node.lineno, witness='a malformed filter is silently accepted')
    # defaults re-established per filter (loop over statements)
    outer = [n for n in walk_no_nested(fi.node) if isinstance(n, ast.For) and unparse(n.iter) == 'statements']
    if len(outer) != 1:
        raise AnalysisError('loop over filter statements not found')
    cfg = CFG(fi.node)
    head = cfg.ids(outer[0])[0]
    cond_vars = set()
    for n in ast.walk(outer[0]):
        if isinstance(n, ast.If):
            for s_ in n.body:
                if isinstance(s_, ast.Assign):
                    cond_vars |= {x.id for x in ast.walk(s_.targets[0]) if isinstance(x, ast.Name)
                                  and isinstance(x.ctx, ast.Store)}
    # (an inlined helper carries its locals as <name>__<helper>)
    cond_vars = {v for v in cond_vars if v.split('__')[0] in ('operator', 'operator_type', 'column', 'expr')}
    for v in sorted(cond_vars):
        direct = [cfg.ids(s_)[0] for s_ in outer[0].body if isinstance(s_, ast.Assign)
                  and isinstance(s_.targets[0], ast.Name) and s_.targets[0].id == v and cfg.ids(s_)]
        uses = [nd for nd in cfg.nodes.values() if nd.ast is not None and nd.kind in ('stmt', 'test')
                and not isinstance(nd.ast, (ast.FunctionDef,)) and any(x is nd.ast or True for x in [0])
                and any(isinstance(x, ast.Name) and x.id == v and isinstance(x.ctx, ast.Load) for x in ast.walk(nd.ast))
                and any(y is nd.ast for s_ in outer[0].body for y in ast.walk(s_))]
        ok = bool(direct) and all(cfg.must_pass(s, u.id, direct) for u in uses
                                  for s in cfg.succ(head, ['true']))
        chk.instance(R1, f'default of `{v}` re-established in every iteration before its use: {ok}')
        if not ok:
            chk.violation(R1, rel, fi.qualname, f'`{v}` not reset per filter',
                          f'`{v}` keeps the value of the previous filter when a filter does not set it', line=outer[0].lineno,
                          witness='IGNORE=(WGT.GT.35) IGNORE=(SEX 1): the second filter (no operator = text equality) is '
                                  'evaluated with .GT. and numeric comparison')
    dflt = {}
    for s_ in outer[0].body:
        if isinstance(s_, ast.Assign) and isinstance(s_.targets[0], ast.Name) \
                and s_.targets[0].id.split('__')[0] in ('operator', 'operator_type'):
            dflt.setdefault(s_.targets[0].id.split('__')[0],
                            s_.value.value if isinstance(s_.value, ast.Constant) else unparse(s_.value))
    chk.instance(R1, f'default without operator: {dflt}')
    if [dflt.get('operator'), dflt.get('operator_type')] != spec['default_without_operator']:
        chk.violation(R1, rel, fi.qualname, f'default {dflt}', 'a filter without operator must be text equality',
                      line=outer[0].lineno, witness='IGNORE=(SEX 1) compares numerically / with another relation')

    # ---------------------------------------------------------------- R2
    cd = dm.functions.get('_convert_data_item')
    cf = dm.functions.get('convert_fortran_number')
    if cd is None or cf is None:
        raise AnalysisError('_convert_data_item / convert_fortran_number not found')
    nulls = set()
    for n in walk_no_nested(cd.node):
        if isinstance(n, ast.If) and any(isinstance(s_, ast.Assign) and unparse(s_.value) == 'null_value' for s_ in n.body):
            for c in ast.walk(n.test):
                if isinstance(c, ast.Compare):
                    r = c.comparators[0]
                    if isinstance(r, ast.Constant):
                        nulls.add(r.value)
    for n in ast.walk(cd.node):
        if isinstance(n, ast.IfExp) and unparse(n.body) == 'null_value':      # x = null_value if <tests> else x
            for c in ast.walk(n.test):
                if isinstance(c, ast.Compare) and isinstance(c.comparators[0], ast.Constant):
                    nulls.add(c.comparators[0].value)
    chk.instance(R2, f'NULL forms {sorted(map(repr, nulls))}')
    if nulls != {None, '.', ''}:
        chk.violation(R2, rel, cd.qualname, f'NULL forms {sorted(map(repr, nulls))}',
                      'NULL items are None, "." and the empty item', line=cd.node.lineno,
                      witness='a data row "1,.,3" or "1,,3": the middle item is not replaced by the NULL value')
    lim = None
    for n in ast.walk(cd.node):
        if isinstance(n, ast.Compare) and isinstance(n.left, ast.Call) and dotted(n.left.func) == 'len' \
                and isinstance(n.comparators[0], ast.Constant):
            k = n.comparators[0].value
            lim = k if isinstance(n.ops[0], ast.Gt) else (k - 1 if isinstance(n.ops[0], ast.GtE) else None)
    chk.instance(R2, f'longest accepted item: {lim} characters')
    if lim != 24:
        chk.violation(R2, rel, cd.qualname, f'length limit {lim}', 'an item can be at most 24 characters long',
                      line=cd.node.lineno, witness='a 24 (or 25) character item is rejected (accepted)')
    mdt = any(isinstance(n, ast.If) and 'missing_data_token' in unparse(n.test)
              and any(isinstance(s_, ast.Return) and 'nan' in unparse(s_) for s_ in n.body) for n in walk_no_nested(cd.node))
    chk.instance(R2, f'missing data token -> NaN: {mdt}')
    if not mdt:
        chk.violation(R2, rel, cd.qualname, 'missing data token', 'the missing data token is not mapped to NaN',
                      line=cd.node.lineno, witness='a dataset written by pharmpy with NaN (token) is read back with an error')
    sign0 = any(isinstance(n, ast.If) and "'+'" in unparse(n.test) and "'-'" in unparse(n.test)
                and any(isinstance(s_, ast.Return) and unparse(s_.value) in ('0.0', '0') for s_ in n.body)
                for n in walk_no_nested(cf.node))
    chk.instance(R2, f'lone + / - -> 0: {sign0}')
    if not sign0:
        chk.violation(R2, rel, cf.qualname, 'lone sign', 'a lone + or - is the number 0', line=cf.node.lineno,
                      witness='a data item "-" raises instead of reading as 0')
    dexp = any(isinstance(c, ast.Call) and isinstance(c.func, ast.Attribute) and c.func.attr == 'replace' and c.args
               and isinstance(c.args[0], ast.Constant) and c.args[0].value in ('D', 'd') for c in ast.walk(cf.node))
    both = {c.args[0].value for c in ast.walk(cf.node) if isinstance(c, ast.Call) and isinstance(c.func, ast.Attribute)
            and c.func.attr == 'replace' and c.args and isinstance(c.args[0], ast.Constant)}
    chk.instance(R2, f'D/d exponent forms handled: {sorted(both)}')
    if not dexp or not {'D', 'd'} <= both:
        chk.violation(R2, rel, cf.qualname, 'D exponent', 'both 1D1 and 1d1 are Fortran numbers', line=cf.node.lineno,
                      witness='a data item 1d1 raises DatasetError')
    # the pattern for mantissa(+|-)exponent, wherever it is written: it has to accept these spellings as a whole (the regular
    # expression text is evaluated by the re module; nothing of pharmpy runs)
    import re as _re
    ok_pm = False
    for c, meth, pat in regex_uses(dm, cf):
        if '[+-]' not in pat.replace('\\', ''):
            continue
        try:
            rx = _re.compile(pat)
        except _re.error:
            continue
        ok_pm = all(rx.fullmatch(s_) for s_ in ('1-10', '-1.5+3', '+2-1', '2+1'))
        # ... and the sign of the mantissa must be captured (the first element of the pattern is a group): an optional sign
        # that is matched but not captured is lost (-1.5+3 read as 1500)
        first = list(sre_parse.parse(pat))[:1]
        ok_pm = ok_pm and bool(first) and first[0][0] is sre_parse.SUBPATTERN
    chk.instance(R2, f'a+b / a-b form (mantissa sign, mantissa, exponent sign, exponent): {ok_pm}')
    if not ok_pm:
        chk.violation(R2, rel, cf.qualname, 'a+b form', 'the form mantissa(+|-)exponent is not recognised', line=cf.node.lineno,
                      witness='a data item 2-1 (= 0.2) raises DatasetError')

    # ---------------------------------------------------------------- R3
    us = data_update_host(repo)
    mm = us.module
    cfg = CFG(us.node)

    def nodes_calling(nm):
        return [n for n in cfg.nodes.values() if n.ast is not None and n.kind in ('stmt', 'return')
                and not isinstance(n.ast, (ast.FunctionDef, ast.ClassDef))
                and any(isinstance(c, ast.Call) and ((isinstance(c.func, ast.Attribute) and c.func.attr == nm)
                                                     or dotted(c.func) == nm) for c in ast.walk(n.ast))]
    setfn = nodes_calling('set_filename')
    sic = nodes_calling('set_ignore_character_from_header')
    upi = nodes_calling('update_input')
    rep = [n for n in nodes_calling('replace_records') if 'data' in unparse(n.ast).lower()]
    if not setfn or not rep:
        raise AnalysisError('R3: $DATA update (set_filename / replace_records) not found in update_source')
    for tgt in rep:
        for via, what in ((sic, 'set_ignore_character_from_header'), (upi, 'update_input')):
            ok = bool(via) and cfg.must_pass(cfg.entry, tgt.id, [v.id for v in via])
            chk.instance(R3, f'{tgt.text()[:50]} preceded by {what} on every path: {ok}')
            if not ok:
                chk.violation(R3, mm.rel, us.qualname, f'{tgt.text()} without {what}',
                              f'$DATA is pointed at the rewritten dataset without {what}', line=tgt.line,
                              witness='a model whose dataset was changed (new/renamed first column): the written csv has '
                                      'a header line that the generated $DATA does not ignore, or $INPUT lists the old '
                                      'columns')
    wm = repo.module('pharmpy.modeling.write_csv')
    wc = wm.functions.get('write_csv')
    if wc is None:
        raise AnalysisError('write_csv not found')
    tc = [c for c in calls_in(wc.node) if isinstance(c.func, ast.Attribute) and c.func.attr == 'to_csv']
    if not tc:
        raise AnalysisError('write_csv: to_csv call not found')
    for c in tc:
        kws = {kw.arg: kw.value for kw in c.keywords}
        recv = unparse(c.func.value)
        whole = recv in ('model.dataset', 'model._dataset', 'df') and not any(
            isinstance(x, ast.Call) and isinstance(x.func, ast.Attribute) and x.func.attr in ('drop', 'filter', 'loc', 'iloc')
            for x in ast.walk(wc.node)) and 'columns' not in kws
        hdr = 'header' not in kws or (isinstance(kws['header'], ast.Constant) and kws['header'].value is True)
        noidx = 'index' in kws and isinstance(kws['index'], ast.Constant) and kws['index'].value is False
        narep = 'na_rep' in kws and 'missing_data_token' in unparse(kws['na_rep'])
        chk.instance(R3, f'write_csv: {recv}.to_csv whole frame={whole} header={hdr} index=False:{noidx} na_rep token:{narep}')
        if not (whole and hdr and noidx and narep):
            chk.violation(R3, wm.rel, wc.qualname, unparse(c),
                          'the written file does not contain exactly the model dataset (all columns in order, header, '
                          'no index column, missing data token for NaN)', line=c.lineno,
                          witness='a model with a DROP column that is not the last one: $INPUT still lists it, so every '
                                  'later column is shifted when the generated model reads the written file')

    # ---------------------------------------------------------------- R4
    rd = dm.functions.get('read_nonmem_dataset')
    seps = [kw.value for c in calls_in(rd.node) if dotted(c.func) in ('pd.read_table', 'pd.read_csv')
            for kw in c.keywords if kw.arg == 'sep']
    if not seps or not isinstance(seps[0], ast.Constant):
        raise AnalysisError('separator regex not found in read_nonmem_dataset')
    sep = seps[0].value
    parsed = list(sre_parse.parse(sep))
    alts = parsed[0][1][1] if len(parsed) == 1 and parsed[0][0] is sre_parse.BRANCH else [parsed]
    HARD = {',', '\t'}

    def hard_capacity(seq):
        """max number of hard delimiters a match can contain (inf as 99)"""
        tot = 0
        for op, av in seq:
            if op is sre_parse.LITERAL:
                tot += chr(av) in HARD
            elif op is sre_parse.IN:
                members = set()
                cat = False
                for o, a in av:
                    if o is sre_parse.LITERAL:
                        members.add(chr(a))
                    elif o is sre_parse.RANGE:
                        members |= {chr(x) for x in range(a[0], a[1] + 1)}
                    elif o is sre_parse.CATEGORY:
                        cat = 'SPACE' in str(a) and 'NOT' not in str(a)
                    elif o is sre_parse.NEGATE:
                        cat = True
                tot += bool(members & HARD) or cat
            elif op is sre_parse.ANY or op is sre_parse.NOT_LITERAL:
                tot += 1
            elif op is sre_parse.CATEGORY:
                tot += 'SPACE' in str(av) and 'NOT' not in str(av)
            elif op in (sre_parse.MAX_REPEAT, sre_parse.MIN_REPEAT):
                lo, hi, sub = av
                inner = hard_capacity(sub)
                if inner:
                    tot += 99 if hi > 1 else inner
            elif op is sre_parse.SUBPATTERN:
                tot += hard_capacity(av[3])
            elif op is sre_parse.BRANCH:
                tot += max(hard_capacity(a_) for a_ in av[1])
        return tot
    for a_ in alts:
        cap = hard_capacity(a_)
        chk.instance(R4, f'separator alternative capacity for comma/TAB: {cap}')
        if cap > 1:
            chk.violation(R4, rel, rd.qualname, f'sep={sep!r}',
                          'one separator match can swallow two delimiters, so an empty (NULL) item between them disappears',
                          line=seps[0].lineno,
                          witness='a TAB separated row "1\\t\\t3" (or "1,\\t3"): the NULL item vanishes, later columns shift '
                                  'left and the row is padded at the end')
    blank_only = any(hard_capacity(a_) == 0 for a_ in alts)
    chk.instance(R4, f'blank-only alternative present: {blank_only}')
    if not blank_only or len(alts) < 3:
        chk.violation(R4, rel, rd.qualname, f'sep={sep!r}', 'comma, TAB and blanks must all separate items', line=seps[0].lineno,
                      witness='a space separated file is read as one column')
    run_more(chk, repo)
    run_r7(chk, repo)
    run_r9(chk, repo)
    run_r10(chk, repo)
    run_r11_r12(chk, repo)
    run_r8(chk, repo)
    run_r13_r14(chk, repo)
    run_r15(chk, repo)


def run_more(chk, repo):
    R5 = chk.rule('R5', 'the missing-data token used when a dataset is written is the model\'s own token, the one the reader '
                        'is given', floor=2)
    R6 = chk.rule('R6', 'observation records are identified by MDV, then EVID, then AMT (NM-TRAN precedence)', floor=1)
    wm = repo.module('pharmpy.modeling.write_csv')
    wf = wm.functions.get('write_csv')
    pm = repo.module('pharmpy.model.external.nonmem.parsing')
    if wf is None:
        raise AnalysisError('write_csv not found')

    def token_source(expr):
        txt = unparse(expr)
        if txt.endswith('.missing_data_token'):
            base = txt[:-len('.missing_data_token')]
            return 'datainfo' if base.endswith('datainfo') or base in ('di', 'datainfo') else base
        return txt
    wsites = [k.value for c in calls_in(wf.node) if isinstance(c.func, ast.Attribute) and c.func.attr == 'to_csv'
              for k in c.keywords if k.arg == 'na_rep']
    rsites = [k.value for f in pm.functions.values() for c in calls_in(f.node) for k in c.keywords
              if k.arg == 'missing_data_token' and (dotted(c.func) or '').endswith('read_nonmem_dataset')]
    if not wsites or not rsites:
        raise AnalysisError(f'R5: na_rep of write_csv ({len(wsites)}) or reader token site ({len(rsites)}) not found')
    for what, mod, fn, sites in (('writer', wm, wf.qualname, wsites), ('reader', pm, 'parse_dataset', rsites)):
        for e in sites:
            src = token_source(e)
            chk.instance(R5, f'{what}: missing data token from {unparse(e)} ({src})')
            if src != 'datainfo':
                chk.violation(R5, mod.rel, fn, unparse(e),
                              f'the {what} takes the missing-data token from `{src}`, not from the model\'s datainfo; writer and '
                              f'reader disagree for a model with a non-default token', line=e.lineno,
                              witness="read_model(path, missing_data_token='-999'), write_csv + write_model, read again: NaN "
                                      "comes back as the number -99")
    fo = pm.functions.get('filter_observations')
    if fo is None:
        raise AnalysisError('filter_observations not found')
    order = []
    # idiom 1: nested try/except IndexError; idiom 2: loop over a constant tuple of type names
    for n in ast.walk(fo.node):
        if isinstance(n, ast.Subscript) and isinstance(n.value, ast.Attribute) and n.value.attr == 'typeix' \
                and isinstance(n.slice, ast.Constant):
            order.append((n.lineno, n.col_offset, n.slice.value))
    order = [t for _, _, t in sorted(order)]
    if not order:
        for n in ast.walk(fo.node):
            if isinstance(n, ast.For) and isinstance(n.iter, (ast.Tuple, ast.List)) \
                    and all(isinstance(e, ast.Constant) for e in n.iter.elts) \
                    and any(isinstance(x, ast.Attribute) and x.attr == 'typeix' for x in ast.walk(n)):
                order = [e.value for e in n.iter.elts]
    if not order or not all(isinstance(t, str) for t in order):
        # idiom 3: a recursive helper that tries kinds[0] and calls itself with kinds[1:]; the order is the constant tuple
        # it is started with
        def head_tail(fnode, par, callee_name):
            head = any(isinstance(n, ast.Subscript) and isinstance(n.value, ast.Attribute) and n.value.attr == 'typeix'
                       and unparse(n.slice) == f'{par}[0]' for n in ast.walk(fnode))
            tails = [(c, i) for c in ast.walk(fnode) if isinstance(c, ast.Call) and dotted(c.func) == callee_name
                     for i, a_ in enumerate(c.args) if unparse(a_) == f'{par}[1:]']
            return head, tails
        order = []
        for a_ in ast.walk(fo.node):
            if isinstance(a_, ast.Assign) and isinstance(a_.targets[0], ast.Name) and isinstance(a_.value, (ast.Tuple, ast.List)) \
                    and a_.value.elts and all(isinstance(e, ast.Constant) and isinstance(e.value, str) for e in a_.value.elts):
                par = a_.targets[0].id
                for c in calls_in(fo.node):
                    g = pm.functions.get(dotted(c.func) or '')
                    if g is None:
                        continue
                    head, tails = head_tail(fo.node, par, dotted(c.func))
                    if head and tails:
                        q = g.node.args.args[tails[0][1]].arg if tails[0][1] < len(g.node.args.args) else None
                        ghead, gtails = head_tail(g.node, q, g.name) if q else (False, [])
                        if ghead and gtails and gtails[0][1] == tails[0][1]:
                            order = [e.value for e in a_.value.elts]
    if not order:
        raise AnalysisError('R6: column type lookups of filter_observations not recognised')
    chk.instance(R6, f'filter_observations looks the record kind up in the order {order}')
    if order != ['mdv', 'event', 'dose']:
        chk.violation(R6, pm.rel, 'filter_observations', f'lookup order {order}',
                      'NM-TRAN: a record is an observation iff MDV = 0; EVID and AMT are only consulted when MDV is absent',
                      line=fo.node.lineno,
                      witness='$INPUT with EVID and MDV; an individual whose only EVID=0 records have MDV=1 is kept although it '
                              'has no observation')


def run_r7(chk, repo):
    import itertools
    R7 = chk.rule('R7', 'update_source removes the IGNORE/ACCEPT filters of $DATA only when the record stops referring to the '
                        'original file (dataset rewritten or path changed)', floor=1)
    us = data_update_host(repo)
    mm = us.module
    if us is None:
        raise AnalysisError('update_source not found')
    parent = {}
    for n in ast.walk(us.node):
        for c in ast.iter_child_nodes(n):
            parent[c] = n
    removes = [n for n in ast.walk(us.node) if isinstance(n, ast.Call) and isinstance(n.func, ast.Attribute)
               and n.func.attr in ('remove_ignore', 'remove_accept')]
    if not removes:
        raise AnalysisError('R7: remove_ignore()/remove_accept() not found in update_source')
    bool_defs = {n.targets[0].id: n.value for n in walk_no_nested(us.node) if isinstance(n, ast.Assign)
                 and isinstance(n.targets[0], ast.Name) and isinstance(n.value, (ast.BoolOp, ast.Compare))}
    stmt = removes[0]
    guards = []
    cur = stmt
    while cur in parent:
        p = parent[cur]
        if isinstance(p, ast.If):
            if any(cur is x or any(cur is y for y in ast.walk(x)) for x in p.body):
                guards.append((p.test, True))
            elif any(cur is x or any(cur is y for y in ast.walk(x)) for x in p.orelse):
                guards.append((p.test, False))
        cur = p

    def classify(leaf):
        t = unparse(leaf)
        if t == 'updated_dataset':
            return 'rewritten'
        if 'path is None' in t:
            return 'rewritten'
        if '.path !=' in t and 'old_datainfo.path' in t:
            return 'path_changed'
        if 'dataset is not None' in t or 'dataset is None' in t:
            return 'has_dataset'
        return 'other:' + t

    def expand(e):
        if isinstance(e, ast.Name) and e.id in bool_defs:
            return expand(bool_defs[e.id])
        if isinstance(e, ast.BoolOp):
            return ast.BoolOp(op=e.op, values=[expand(v) for v in e.values])
        if isinstance(e, ast.UnaryOp) and isinstance(e.op, ast.Not):
            return ast.UnaryOp(op=e.op, operand=expand(e.operand))
        return e
    exps = [(expand(t), pol) for t, pol in guards]
    atoms = sorted({classify(l) for t, _ in exps for l in ast.walk(t)
                    if not isinstance(l, (ast.BoolOp, ast.boolop, ast.unaryop, ast.UnaryOp, ast.expr_context, ast.cmpop))
                    and isinstance(l, (ast.Compare, ast.Name, ast.Call, ast.Attribute))
                    and not any(isinstance(a, (ast.Compare,)) and l is not a and any(l is d for d in ast.walk(a))
                                for t2, _ in exps for a in ast.walk(t2))})

    def ev(e, env):
        if isinstance(e, ast.BoolOp):
            vals = [ev(v, env) for v in e.values]
            return all(vals) if isinstance(e.op, ast.And) else any(vals)
        if isinstance(e, ast.UnaryOp) and isinstance(e.op, ast.Not):
            return not ev(e.operand, env)
        return env[classify(e)]
    leaves = sorted({classify(l) for t, _ in exps for l in _leaves(t)})
    bad = []
    for vals in itertools.product([False, True], repeat=len(leaves)):
        env = dict(zip(leaves, vals))
        if all(ev(t, env) == pol for t, pol in exps):
            if not (env.get('rewritten') or env.get('path_changed')):
                bad.append({k: v for k, v in env.items() if v})
    chk.instance(R7, f'filters removed under {[unparse(t)[:70] for t, _ in guards]}; reachable with the file reference unchanged: '
                     f'{bool(bad)}')
    if bad:
        chk.violation(R7, mm.rel, us.qualname, f'{unparse(parent.get(stmt, stmt))[:90]}',
                      f'the filters are removed although the record keeps its file name (e.g. when only {bad[0]} holds): NONMEM '
                      f'then reads records that model.dataset does not contain', line=stmt.lineno,
                      witness="$DATA 'pheno.dta' IGNORE=@ IGNORE=(WGT.GT.1.5), then drop_columns(model, ['APGR'], mark=True): "
                              "the code reads all 744 records, model.dataset has 542")


def _leaves(e):
    if isinstance(e, ast.BoolOp):
        for v in e.values:
            yield from _leaves(v)
    elif isinstance(e, ast.UnaryOp) and isinstance(e.op, ast.Not):
        yield from _leaves(e.operand)
    else:
        yield e


def run_r8(chk, repo):
    R8 = chk.rule('R8', 'write_csv writes values with full precision (no float_format / rounding options)', floor=1)
    wm = repo.module('pharmpy.modeling.write_csv')
    wf = wm.functions.get('write_csv')
    calls = [c for c in calls_in(wf.node) if isinstance(c.func, ast.Attribute) and c.func.attr == 'to_csv']
    if not calls:
        raise AnalysisError('R8: to_csv call of write_csv not found')
    for c in calls:
        lossy = [k.arg for k in c.keywords if k.arg in ('float_format', 'decimal', 'quoting', 'chunksize') and k.arg in
                 ('float_format', 'decimal')]
        rounded = any(isinstance(x, ast.Call) and isinstance(x.func, ast.Attribute) and x.func.attr in ('round', 'astype')
                      for x in ast.walk(c.func.value))
        chk.instance(R8, f'write_csv: {unparse(c)[:90]} lossy options {lossy} rounding {rounded}')
        if lossy or rounded:
            chk.violation(R8, wm.rel, 'write_csv', unparse(c)[:110],
                          'values that need 16-17 significant digits are written rounded; the dataset read back through the '
                          'regenerated $DATA differs from model.dataset', line=c.lineno,
                          witness='a computed covariate such as 0.1 + 0.2 or log(DV): write_csv + write_model + read_model gives '
                                  'other bits')


def run_r9(chk, repo):
    """a pattern anchored with ^ that is applied to the whole file text must see every line start"""
    R9 = chk.rule('R9', 'NMTRANDataIO: comment patterns anchored at line start (^...) are compiled with re.MULTILINE', floor=2)
    dm = repo.module('pharmpy.model.external.nonmem.dataset')
    cls = dm.classes.get('NMTRANDataIO')
    f = cls.methods.get('__init__') if cls else None
    if f is None:
        raise AnalysisError('NMTRANDataIO.__init__ not found')
    n = 0
    for c in [x for x in calls_in(f.node) if dotted(x.func) == 're.compile' and x.args]:
        pat = c.args[0]
        first = pat
        while isinstance(first, ast.BinOp) and isinstance(first.op, ast.Add):
            first = first.left
        if isinstance(first, ast.JoinedStr) and first.values:
            first = first.values[0]
        if not (isinstance(first, ast.Constant) and isinstance(first.value, str) and first.value.startswith('^')):
            continue
        n += 1
        flags = ' '.join(unparse(a) for a in c.args[1:]) + ' ' + ' '.join(unparse(k.value) for k in c.keywords if k.arg == 'flags')
        inline = '(?m' in first.value
        ok = 'MULTILINE' in flags or 're.M' in flags.split() or inline
        chk.instance(R9, f'NMTRANDataIO: {unparse(c)[:70]}: line-anchored, MULTILINE {ok}')
        if not ok:
            chk.violation(R9, dm.rel, f.qualname, unparse(c)[:100],
                          'without MULTILINE the ^ matches only at the start of the file: comment lines further down are read '
                          'as data records', line=c.lineno,
                          witness='$DATA f IGNORE=C with flagged records in the middle of the file: they are not removed')
    if n < 2:
        raise AnalysisError(f'R9: only {n} line-anchored comment patterns found in NMTRANDataIO')


def run_r10(chk, repo):
    """convert_fortran_number: the a+b / a-b form (exponent without E) is recognised on the WHOLE item; matched on a prefix it
    takes the sign of a mantissa for the sign of an exponent (-1.2D-3 -> 'E-1.2')"""
    R10 = chk.rule('R10', 'convert_fortran_number: the mantissa[+-]exponent pattern must match the whole item (fullmatch or an '
                          'end anchor)', floor=1)
    dm = repo.module('pharmpy.model.external.nonmem.dataset')
    f = dm.functions.get('convert_fortran_number')
    if f is None:
        raise AnalysisError('convert_fortran_number not found')
    n = 0
    for c, meth, patv in regex_uses(dm, f):
        fn = meth
        if '[+-]' not in patv.replace('\\', ''):
            continue
        pat = ast.Constant(value=patv)
        n += 1
        whole = fn.endswith('fullmatch') or pat.value.rstrip(')').endswith(('$', '\\Z'))
        chk.instance(R10, f'convert_fortran_number: {unparse(c)[:80]} matches the whole item: {whole}')
        if not whole:
            chk.violation(R10, dm.rel, f.name, unparse(c)[:100],
                          'the pattern is satisfied by a prefix: for a signed mantissa with a D exponent the empty mantissa and the '
                          'sign are taken as "mantissa sign exponent"', line=c.lineno,
                          witness="a data item -1.2D-3 (NM-TRAN: -0.0012): ValueError could not convert string to float 'E-1.2'")
    if n == 0:
        raise AnalysisError('R10: the mantissa[+-]exponent pattern of convert_fortran_number was not found')


def run_r11_r12(chk, repo):
    """R11: the IGNORE/ACCEPT filters are dropped from $DATA also when only the file the record points to changed (they were
    already applied to the data that write_csv wrote there); R12: $INPUT columns on a ratio scale (times, amounts, the dosing
    interval II) are not given an integer datatype"""
    from sa import reach, guards as G_
    R11 = chk.rule('R11', 'nonmem update_source: remove_ignore()/remove_accept() run when the dataset is rewritten AND when '
                          'datainfo.path differs from the path the record was generated for', floor=1)
    f = data_update_host(repo)
    mm = f.module
    cfg = CFG(f.node)
    n = 0
    for nd in cfg.nodes.values():
        if nd.kind != 'stmt' or nd.ast is None or not any(
                isinstance(c, ast.Call) and isinstance(c.func, ast.Attribute) and c.func.attr == 'remove_ignore'
                for c in ast.walk(nd.ast)):
            continue
        n += 1

        def path_changed(e):
            if isinstance(e, ast.Compare) and len(e.ops) == 1 and isinstance(e.ops[0], ast.NotEq):
                t = unparse(e)
                if 'old_datainfo.path' in t and 'datainfo.path' in t.replace('old_datainfo.path', ''):
                    return True
            return None
        # the removal must be reached whenever the path comparison is true: a test on the way that is true whenever the
        # comparison is (the comparison itself, an `or` with it as one alternative, a flag defined so), removal on its true edge
        def implied(t_, at):
            if path_changed(t_):
                return True
            if isinstance(t_, ast.BoolOp) and isinstance(t_.op, ast.Or):
                return any(implied(v, at) for v in t_.values)
            if isinstance(t_, ast.Name):
                vs = reach.values(cfg, at, t_.id) or []
                return bool(vs) and all(implied(v, d) for d, v in vs)
            return False
        # the innermost test that controls the removal (the last one on whose true edge it lies) decides
        ctrl = [t for t in cfg.nodes.values() if t.kind == 'test' and t.ast is not None
                and cfg.edge_dominates(t.id, 'true', nd.id)]
        inner = max(ctrl, key=lambda t: (t.line or 0)) if ctrl else None
        ok = inner is not None and implied(inner.ast, inner.id)
        chk.instance(R11, f'update_source: `{nd.text()[:60]}` is reached when only the path changed: {ok}')
        if not ok:
            chk.violation(R11, mm.rel, f.qualname, nd.text()[:90],
                          'after write_csv to a new file the record keeps IGNORE/ACCEPT: they are applied a second time to data '
                          'that pharmpy already filtered and re-formatted', line=nd.line,
                          witness='ACCEPT=(APGR.EQ.7) on a column written back as 7.0: read, write_csv(new path), write_model, '
                                  'read gives 0 rows')
    if n == 0:
        raise AnalysisError('R11: remove_ignore() not found in update_source')
    R12 = chk.rule('R12', 'create_nonmem_datainfo: no column on a ratio scale gets an integer datatype', floor=3)
    pm = repo.module('pharmpy.model.external.nonmem.parsing')
    g = pm.functions.get('create_nonmem_datainfo')
    if g is None:
        raise AnalysisError('create_nonmem_datainfo not found')
    n12 = 0
    # the per-column decision may live in a helper of the module
    scope12 = [g] + [h for h in pm.functions.values() if h is not g and h.cls is None and any(
        isinstance(c, ast.Call) and isinstance(c.func, ast.Name) and c.func.id == h.name for c in ast.walk(g.node))]
    for c in [c_ for h in scope12 for c_ in calls_in(h.node)]:
        if not (dotted(c.func) or '').endswith('ColumnInfo.create'):
            continue
        kw = {k.arg: k.value for k in c.keywords}
        sc = kw.get('scale')
        if isinstance(sc, ast.Constant) and sc.value == 'ratio':
            n12 += 1
            dt = kw.get('datatype')
            bad = isinstance(dt, ast.Constant) and isinstance(dt.value, str) and dt.value.startswith(('int', 'uint'))
            chk.instance(R12, f'create_nonmem_datainfo: {unparse(c)[:80]}: integer datatype {bad}')
            if bad:
                chk.violation(R12, pm.rel, g.name, unparse(c)[:100],
                              'the column holds a continuous quantity: the reader truncates it to an integer without warning',
                              line=c.lineno,
                              witness='II = 12.5 in the data file is read as 12 (also 1.25D1), and stays so after write/read')
    if n12 < 3:
        raise AnalysisError(f'R12: only {n12} ratio-scale columns found in create_nonmem_datainfo')


def run_r13_r14(chk, repo):
    """R13: IGNORE=(COL.op.value) removes the records for which the comparison holds and keeps ALL others, also those whose
    item is missing (NaN): the kept set is the negation of the whole query, `not(col op value)`; a complemented operator
    (`>=` for `<`) is false for NaN as well and drops those records too. R14: when $INPUT lists more columns than the file has,
    the missing items are filled with the NULL value of the record (NULL=..), as text, before the filters are applied"""
    from sa.cfg import CFG
    from sa import reach
    dm = repo.module('pharmpy.model.external.nonmem.dataset')
    f = dm.functions.get('_filter_ignore_accept')
    if f is None:
        raise AnalysisError('R13: _filter_ignore_accept not found')
    R13 = chk.rule('R13', '_filter_ignore_accept: for IGNORE the query given to DataFrame.query is the negated comparison '
                          '(not(...) / ~), never a comparison with the complemented operator', floor=2)
    cfg = CFG(f.node)
    n = 0
    for nd in cfg.nodes.values():
        if nd.ast is None or nd.kind != 'stmt':
            continue
        for c in [c for c in ast.walk(nd.ast) if isinstance(c, ast.Call) and isinstance(c.func, ast.Attribute)
                  and c.func.attr in ('query', 'eval') and c.args]:
            n += 1
            a = c.args[0]
            texts = []
            if isinstance(a, ast.Name):
                texts = [unparse(v) for _i, v in (reach.values(cfg, nd.id, a.id) or [])]
            else:
                texts = [unparse(a)]
            negated = [t for t in texts if 'not(' in t.replace(' ', '') or 'not ' in t or '~' in t]
            # the negation must be the one chosen for IGNORE: it is assigned under a test of `ignore`
            under_ignore = False
            if isinstance(a, ast.Name):
                for i_, v in (reach.values(cfg, nd.id, a.id) or []):
                    if 'not' in unparse(v) or '~' in unparse(v):
                        under_ignore = under_ignore or any(
                            t.kind == 'test' and 'ignore' in unparse(t.ast) and cfg.edge_dominates(t.id, 'true', i_)
                            for t in cfg.nodes.values())
            else:
                under_ignore = bool(negated)
            ok = bool(negated) and under_ignore
            chk.instance(R13, f'{unparse(c)[:50]}: negated query for IGNORE: {ok}')
            if not ok:
                chk.violation(R13, dm.rel, f.qualname, unparse(c)[:80],
                              'no negated form of the query reaches this call for IGNORE: with a complemented operator the '
                              'records whose item is missing (NaN compares false both ways) are dropped as well', line=c.lineno,
                              witness='IGNORE=(WGT.LT.50) with a record whose WGT is the missing data token: NM-TRAN keeps it, '
                                      'the dataset loses it')
    if n < 1:
        raise AnalysisError('R13: no query call found in _filter_ignore_accept')
    R14 = chk.rule('R14', 'read_nonmem_dataset: columns that $INPUT names beyond the file are filled with the text of the NULL '
                          'value', floor=1)
    g = dm.functions.get('read_nonmem_dataset')
    if g is None:
        raise AnalysisError('R14: read_nonmem_dataset not found')
    gcfg = CFG(g.node)
    warn = [n_ for n_ in gcfg.nodes.values() if n_.ast is not None and n_.kind == 'stmt' and 'more columns in $INPUT' in unparse(n_.ast)]
    if not warn:
        raise AnalysisError('R14: the "more columns in $INPUT than in the dataset" branch was not found')
    # statements of the same branch (dominated by the warning) that add columns
    fills = []
    for n_ in gcfg.nodes.values():
        if n_.ast is None or n_.kind != 'stmt' or not gcfg.dominates(warn[0].id, n_.id):
            continue
        a_ = n_.ast
        if isinstance(a_, ast.Assign) and isinstance(a_.targets[0], ast.Subscript) and isinstance(a_.targets[0].value, ast.Name):
            fills.append((n_, a_.value))
        for c in ast.walk(a_):
            if isinstance(c, ast.Call) and isinstance(c.func, ast.Attribute) and c.func.attr in ('reindex', 'assign', 'insert'):
                fv = next((k.value for k in c.keywords if k.arg in ('fill_value', 'value')), None)
                fills.append((n_, fv if fv is not None else c))
    fills = [(n_, v) for n_, v in fills if 'columns' not in unparse(n_.ast.targets[0] if isinstance(n_.ast, ast.Assign) else n_.ast)[:12]]
    if not fills:
        raise AnalysisError('R14: no statement that creates the missing columns found')
    for n_, v in fills:
        try:
            vx = reach.expand_expr(gcfg, n_.id, v)
        except Exception:
            vx = v
        ok = 'null_value' in unparse(vx)
        chk.instance(R14, f'{n_.text()[:60]}: filled with the NULL value: {ok}')
        if not ok:
            chk.violation(R14, dm.rel, g.qualname, n_.text()[:100],
                          'the missing items are not the NULL value of the record: a filter on such a column (applied before '
                          'the columns are parsed) compares with another text', line=n_.line,
                          witness='$INPUT ID TIME DV FLAG with a three-column file and ACCEPT=(FLAG.EQ.0): the dataset is empty')


def run_r15(chk, repo):
    """R15: NM-TRAN treats DROP and SKIP as synonyms in every position of a $INPUT item (DROP, DROP=NAME, NAME=DROP): every
    test in parse_column_info that recognises one of the two keywords recognises the other (sibling agreement of the tests)."""
    R15 = chk.rule('R15', 'parse_column_info: every test that recognises the keyword DROP or SKIP recognises both', floor=2)
    m = repo.module('pharmpy.model.external.nonmem.parsing')
    f = m.functions.get('parse_column_info')
    if f is None:
        raise AnalysisError('R15: parse_column_info not found')
    consts = {}
    for a_ in m.tree.body:
        if isinstance(a_, ast.Assign) and len(a_.targets) == 1 and isinstance(a_.targets[0], ast.Name) \
                and isinstance(a_.value, (ast.Tuple, ast.List, ast.Set)) or isinstance(a_, ast.Assign) and isinstance(
                    a_.value, ast.Call) and dotted(a_.value.func) in ('frozenset', 'set', 'tuple') and a_.value.args:
            v = a_.value if not isinstance(a_.value, ast.Call) else a_.value.args[0]
            if isinstance(v, (ast.Tuple, ast.List, ast.Set)) and isinstance(a_.targets[0], ast.Name):
                consts[a_.targets[0].id] = {e.value for e in v.elts if isinstance(e, ast.Constant) and isinstance(e.value, str)}
    local = {}
    for a_ in walk_no_nested(f.node):
        if isinstance(a_, ast.Assign) and len(a_.targets) == 1 and isinstance(a_.targets[0], ast.Name) \
                and isinstance(a_.value, (ast.Tuple, ast.List, ast.Set)):
            local[a_.targets[0].id] = {e.value for e in a_.value.elts if isinstance(e, ast.Constant) and isinstance(e.value, str)}

    def atoms(test):
        # one keyword test per compared subject: `key == 'DROP' or key == 'SKIP'`, `key in (..)`, `key in _DROP_KEYWORDS`
        out = {}
        for c in ast.walk(test):
            if isinstance(c, ast.Compare) and len(c.ops) == 1:
                subj, other = c.left, c.comparators[0]
                if isinstance(subj, ast.Constant):
                    subj, other = other, subj
                words = set()
                if isinstance(other, ast.Constant) and isinstance(other.value, str):
                    words = {other.value}
                elif isinstance(other, (ast.Tuple, ast.List, ast.Set)):
                    words = {e.value for e in other.elts if isinstance(e, ast.Constant) and isinstance(e.value, str)}
                elif isinstance(other, ast.Name):
                    words = local.get(other.id, consts.get(other.id, set()))
                if words & {'DROP', 'SKIP'}:
                    out.setdefault(unparse(subj), set()).update(words)
        return out
    # maximal boolean expressions, wherever they stand (if / while / conditional expression / a flag assigned once and tested later)
    inner = {id(v) for b in walk_no_nested(f.node) if isinstance(b, ast.BoolOp) for v in b.values}
    for node in walk_no_nested(f.node):
        if isinstance(node, (ast.BoolOp, ast.Compare)) and id(node) not in inner:
            for subj, words in atoms(node).items():
                ok = {'DROP', 'SKIP'} <= words
                chk.instance(R15, f'parse_column_info: test on {subj} accepts {sorted(words & {"DROP", "SKIP"})}: {ok}')
                if not ok:
                    chk.violation(R15, m.rel, f.qualname, f'{subj}: {sorted(words)}',
                                  f'the test on {subj} recognises only {sorted(words & {"DROP", "SKIP"})}; NM-TRAN accepts DROP and '
                                  f'SKIP in every position', line=node.lineno,
                                  witness='$INPUT ID TIME AMT=SKIP WGT DV: the column is read as a synonym named SKIP instead of '
                                          'being dropped')
