"""C16 Model database / context: PENDING protocol, ownership, publish-after-write, atomic rewrite,
locked access, quoting of free text (K1-K6, see DESIGN.md)."""
from __future__ import annotations

import ast

from sa.cfg import CFG
from sa.report import AnalysisError
from sa.srcmodel import unparse, walk_no_nested, dotted, calls_in

DBMOD = 'pharmpy.workflows.model_database.local_directory'
BASEMOD = 'pharmpy.workflows.model_database.baseclass'
CTXMOD = 'pharmpy.workflows.contexts.local_directory'

CONTENT_WRITERS = {'write_csv', 'write_model', 'to_json', 'to_csv', 'dump', 'copy2', 'copy', 'copyfile',
                   'copytree', 'writelines', 'write', 'write_text', 'write_bytes'}
FS_MUTATORS = CONTENT_WRITERS | {'touch', 'mkdir', 'unlink', 'rmtree', 'rename', 'replace', 'symlink_to',
                                 'create_directory_symlink', 'rmdir', 'remove'}


def call_name(c: ast.Call):
    f = c.func
    if isinstance(f, ast.Attribute):
        return f.attr
    if isinstance(f, ast.Name):
        return f.id
    return None


def names(node):
    return {n.id for n in ast.walk(node) if isinstance(n, ast.Name)}


def derived_names(fn, seeds: set[str]) -> set[str]:
    """locals assigned (transitively) from expressions mentioning a seed name"""
    out = set(seeds)
    changed = True
    while changed:
        changed = False
        for n in walk_no_nested(fn):
            if isinstance(n, ast.Assign) and len(n.targets) == 1 and isinstance(n.targets[0], ast.Name):
                if names(n.value) & out and n.targets[0].id not in out:
                    out.add(n.targets[0].id)
                    changed = True
    return out


def node_calls(node):
    a = node.ast
    if a is None or isinstance(a, (ast.FunctionDef, ast.ClassDef)) or node.kind in ('dispatch', 'except', 'join',
                                                                                    'with_exit'):
        return []
    if node.kind == 'for':
        a = a.iter
    return [x for x in [a, *walk_no_nested(a)] if isinstance(x, ast.Call)]


def open_mode(c: ast.Call):
    if dotted(c.func) == 'open' or (isinstance(c.func, ast.Attribute) and c.func.attr == 'open'):
        mode = None
        args = c.args if dotted(c.func) == 'open' else [None] + list(c.args)
        if len(args) > 1 and isinstance(args[1], ast.Constant):
            mode = args[1].value
        for kw in c.keywords:
            if kw.arg == 'mode' and isinstance(kw.value, ast.Constant):
                mode = kw.value.value
        return mode or 'r'
    return None


def run(chk, repo, tier):
    db = repo.module(DBMOD)
    base = repo.module(BASEMOD)
    ctx = repo.module(CTXMOD)
    chk.explanation = (
        'Decides structural clauses of the database/context protocol on the CFG of the anchored functions: '
        'K1 PENDING marker created before and removed only on the normal continuation after the yield, under the '
        'exclusive lock, snapshot refuses while it exists; K2 who-may-construct transactions/snapshots and '
        'wrapper/sibling agreement; K3 index published after the files its presence promises; K4 no truncating '
        'read-modify-write of a shared file; K5 every access of annotations/log under the matching lock; K6 free '
        'text interpolated into line/CSV records is quoted. NOT decided: fidelity of retrieved model content, '
        'torn final writes, pandas CSV semantics, races on the name->key symlinks.')
    K1 = chk.rule('K1', 'PENDING protocol: marker creation dominates the yield, commit (unlink) only on the normal '
                        'continuation and on every normal continuation, all under the exclusive lock; snapshot '
                        'yields only when the marker is absent, under the shared lock', floor=8)
    K2 = chk.rule('K2', 'transactions/snapshots are constructed only by transaction()/snapshot(); every '
                        'TransactionalModelDatabase.store_*/retrieve_* wraps the same-named txn/snapshot method; '
                        'snapshot methods do not mutate the database', floor=12)
    K3 = chk.rule('K3', 'an index entry whose presence selects a reuse branch is created after all content files '
                        'are written; the file whose presence short-circuits store_model is written last', floor=2)
    K4 = chk.rule('K4', 'no truncating open(...,"w") of a file that the same method reads (read-modify-write must '
                        'replace atomically)', floor=1)
    K5 = chk.rule('K5', 'every open/read of annotations and log.csv is inside the matching _read_lock/_write_lock '
                        'for the same path (write modes need the exclusive lock)', floor=4)
    K6 = chk.rule('K6', 'free-text fields (parameters annotated str) interpolated into a written CSV row pass '
                        'through the quoting helper', floor=2)

    K7 = chk.rule('K7', 'the writer and the reader of the annotations file select the record of a model by the '
                        'same test: equality of the first space-separated field with the name', floor=2)
    K8 = chk.rule('K8', 'a sequence serialised as a dict keyed by position (enumerate) is rebuilt in insertion or '
                        'numeric order: from_dict does not sort the (string) keys lexicographically', floor=1)

    dbc = db.classes.get('LocalModelDirectoryDatabase')
    if dbc is None:
        raise AnalysisError('LocalModelDirectoryDatabase not found')
    rel = db.rel

    # ------------------------------------------------------------------ lock helpers
    def path_lock_mode(call):
        for kw in call.keywords:
            if kw.arg == 'shared' and isinstance(kw.value, ast.Constant):
                return 'shared' if kw.value.value else 'exclusive'
        return 'exclusive'   # default shared=False

    def lock_kind(cls, meth):
        f = cls.methods.get(meth)
        if f is None:
            if cls is dbc and direct_path_locks():
                return None      # the helpers were folded into snapshot() / transaction(): decided at the with statements
            raise AnalysisError(f'{cls.name}.{meth} not found')
        for n in walk_no_nested(f.node):
            if isinstance(n, ast.Return) and isinstance(n.value, ast.Call) and call_name(n.value) == 'path_lock':
                return path_lock_mode(n.value)
        return None

    def direct_path_locks():
        # `with path_lock(.., shared=..):` written directly in snapshot() / transaction()
        out = {}
        for mname in ('snapshot', 'transaction'):
            mf = dbc.methods.get(mname)
            if mf is None:
                continue
            for n in walk_no_nested(mf.node):
                if isinstance(n, ast.With):
                    for it in n.items:
                        if isinstance(it.context_expr, ast.Call) and call_name(it.context_expr) == 'path_lock':
                            out[mname] = (n, path_lock_mode(it.context_expr))
        return out

    for cls in (dbc, ctx.classes.get('LocalDirectoryContext')):
        if cls is None:
            raise AnalysisError('LocalDirectoryContext not found')
        for meth, want in (('_read_lock', 'shared'), ('_write_lock', 'exclusive')):
            got = lock_kind(cls, meth)
            if got is None and cls is dbc and cls.methods.get(meth) is None:
                dm = direct_path_locks().get('snapshot' if meth == '_read_lock' else 'transaction')
                got = dm[1] if dm else None
                chk.instance(K1, f'{cls.name}.{"snapshot" if meth == "_read_lock" else "transaction"}: with path_lock({got})')
                if got != want and not (meth == '_read_lock' and got == 'exclusive'):
                    chk.violation(K1, cls.module.rel, f'{cls.name}.{"snapshot" if meth == "_read_lock" else "transaction"}',
                                  f'path_lock shared mode is {got}, expected {want}', f'the {want} lock is not taken',
                                  witness='a writer and a reader (or two writers) of the same entry run concurrently; the '
                                          'reader observes a half-written entry')
                continue
            chk.instance(K1 if cls is dbc else K5, f'{cls.name}.{meth} -> path_lock({got})')
            if got != want:
                chk.violation(K1 if cls is dbc else K5, cls.module.rel, f'{cls.name}.{meth}',
                              f'path_lock shared mode is {got}, expected {want}',
                              f'{meth} does not take the {want} lock',
                              witness='a writer and a reader (or two writers) of the same entry/file run '
                                      'concurrently; the reader observes a half-written entry',
                              line=cls.methods[meth].node.lineno)

    # ------------------------------------------------------------------ K1 transaction
    def with_lock_stmt(fn, lockmeth):
        for n in walk_no_nested(fn):
            if isinstance(n, ast.With):
                for it in n.items:
                    c = it.context_expr
                    # (the helper may have been renamed: its present name, sa/renames.py)
                    cur = getattr(dbc.methods.get(lockmeth), 'name', lockmeth)
                    if isinstance(c, ast.Call) and isinstance(c.func, ast.Attribute) and c.func.attr in (lockmeth, cur):
                        return n
                    # the lock taken directly: `with path_lock(.., shared=False)` is the write lock
                    if isinstance(c, ast.Call) and call_name(c) == 'path_lock' \
                            and path_lock_mode(c) == ('shared' if lockmeth == '_read_lock' else 'exclusive'):
                        return n
        return None

    tf = dbc.methods.get('transaction')
    sf = dbc.methods.get('snapshot')
    if tf is None or sf is None:
        raise AnalysisError('transaction()/snapshot() not found')
    for f in (tf, sf):
        cfg = CFG(f.node)
        markers = derived_names(f.node, set()) | {
            n.targets[0].id for n in walk_no_nested(f.node)
            if isinstance(n, ast.Assign) and isinstance(n.targets[0], ast.Name) and 'FILE_PENDING' in names(n.value)}
        if not markers:
            raise AnalysisError(f'{f.qualname}: no path derived from FILE_PENDING')
        ys = [n for n in cfg.nodes.values() if n.kind == 'yield']
        if len(ys) != 1:
            raise AnalysisError(f'{f.qualname}: expected one yield, found {len(ys)}')
        y = ys[0]

        def marker_call(node, meths):
            for c in node_calls(node):
                if isinstance(c.func, ast.Attribute) and c.func.attr in meths and names(c.func.value) & markers:
                    return c
            return None
        if f is tf:
            creates = [n for n in cfg.nodes.values() if marker_call(n, {'touch', 'mkdir', 'open'})]
            commits = [n for n in cfg.nodes.values() if marker_call(n, {'unlink', 'rmdir', 'remove'})]
            w = with_lock_stmt(f.node, '_write_lock')
            chk.instance(K1, f'transaction: create={[n.text() for n in creates]} yield commit={[n.text() for n in commits]}')
            if not creates:
                chk.violation(K1, rel, f.qualname, 'no PENDING marker creation', 'the transaction never marks the entry '
                              'as pending', line=f.node.lineno,
                              witness='a crash in the middle of store_model leaves a partial entry that snapshot() '
                                      'hands to readers as complete')
            for c in creates:
                chk.instance(K1, 'marker creation dominates yield')
                if not cfg.dominates(c.id, y.id):
                    chk.violation(K1, rel, f.qualname, c.text() + ' does not dominate yield',
                                  'the transaction body can run without the PENDING marker', line=c.line,
                                  witness='a crash during the store leaves a partial entry without marker')
                mc = marker_call(c, {'touch', 'mkdir', 'open'})
                eo = [kw for kw in mc.keywords if kw.arg == 'exist_ok']
                chk.instance(K1, 'marker creation is exclusive (exist_ok=False)')
                if mc.func.attr in ('touch', 'mkdir') and eo and not (
                        isinstance(eo[0].value, ast.Constant) and eo[0].value.value is False):
                    chk.violation(K1, rel, f.qualname, c.text() + ' tolerates an existing marker',
                                  'a pending (crashed) transaction is silently taken over', line=c.line,
                                  witness='after a crash the next transaction on the key commits and removes the '
                                          'marker of the crashed one: its partial files become visible')
            if not commits:
                chk.violation(K1, rel, f.qualname, 'no commit (marker removal)', 'a successful transaction never '
                              'becomes visible', line=f.node.lineno,
                              witness='every stored model stays PENDING; retrieve raises PendingTransactionError')
            exc_succ = list(cfg.succ(y.id, ['exc']))
            for c in commits:
                chk.instance(K1, 'commit not reachable from the exceptional continuation of yield')
                for m in exc_succ:
                    if c.id in cfg.reachable(m):
                        chk.violation(K1, rel, f.qualname, c.text() + ' reachable after exception at yield',
                                      'the PENDING marker is removed although the transaction body raised',
                                      line=c.line, path=cfg.describe(cfg.path(m, c.id) or []),
                                      witness='an exception (or crash-like failure) inside store_model: the partial '
                                              'entry is committed and later retrieved as if complete')
                        break
            chk.instance(K1, 'every normal continuation after yield passes the commit')
            for m in cfg.succ(y.id, None):
                if cfg.g[y.id][m]['labels'] <= {'exc'}:
                    continue
                if commits and cfg.exit in cfg.reachable(m, avoid={c.id for c in commits},
                                                         labels_excluded=('exc', 'fexc')):
                    chk.violation(K1, rel, f.qualname, 'normal path from yield to exit without commit',
                                  'a successful transaction can leave the marker in place', line=y.line,
                                  witness='the stored entry can never be retrieved (PendingTransactionError)')
            chk.instance(K1, 'create/yield/commit inside `with self._write_lock()`')
            inside = set(map(id, ast.walk(w))) if w is not None else set()
            for n in creates + [y] + commits:
                if id(n.ast) not in inside:
                    chk.violation(K1, rel, f.qualname, n.text() + ' outside the exclusive database lock',
                                  'protocol step not protected by _write_lock', line=n.line,
                                  witness='a concurrent snapshot tests the marker between the steps')
            # the refused case must raise
            handlers = [h for n in walk_no_nested(f.node) if isinstance(n, ast.Try) for h in n.handlers
                        if h.type is not None and 'FileExistsError' in unparse(h.type)]
            chk.instance(K1, 'existing marker -> raise')
            if creates and not any(any(isinstance(x, ast.Raise) for x in ast.walk(h)) for h in handlers):
                chk.violation(K1, rel, f.qualname, 'FileExistsError handler does not raise',
                              'an already pending entry is not refused', line=f.node.lineno,
                              witness='two crashed/parallel transactions interleave on one key')
        else:
            tests = [n for n in cfg.nodes.values() if n.kind == 'test' and marker_call(n, {'exists', 'is_file'})]
            chk.instance(K1, f'snapshot: tests={[n.text() for n in tests]}')
            ok = any(cfg.edge_dominates(t.id, 'false', y.id) and not isinstance(t.ast, ast.UnaryOp) for t in tests) \
                or any(cfg.edge_dominates(t.id, 'true', y.id) and isinstance(t.ast, ast.UnaryOp)
                       and isinstance(t.ast.op, ast.Not) for t in tests)
            if not ok:
                chk.violation(K1, rel, f.qualname, 'yield not guarded by absence of the PENDING marker',
                              'a snapshot can be handed out for an entry with a pending transaction',
                              line=y.line,
                              witness='store interrupted after writing model file but before results: reader '
                                      'retrieves the partial entry as complete')
            w = with_lock_stmt(f.node, '_read_lock') or with_lock_stmt(f.node, '_write_lock')
            inside = set(map(id, ast.walk(w))) if w is not None else set()
            chk.instance(K1, 'marker test and yield inside the database lock')
            for n in tests + [y]:
                if id(n.ast) not in inside:
                    chk.violation(K1, rel, f.qualname, n.text() + ' outside the database lock',
                                  'snapshot step not protected by _read_lock', line=n.line,
                                  witness='a transaction starts between the marker test and the read')

    # ------------------------------------------------------------------ K2 ownership
    for cname, owner in (('LocalModelDirectoryDatabaseTransaction', 'transaction'),
                         ('LocalModelDirectoryDatabaseSnapshot', 'snapshot')):
        if cname not in db.classes:
            raise AnalysisError(f'{cname} not found')
        sites = 0
        for f in repo.all_funcs():
            for c in calls_in(f.node):
                r = None
                if call_name(c) == cname:
                    r = repo.resolve_call(f, c)
                if r and r[0] == 'class' and r[1].fq == db.classes[cname].fq:
                    sites += 1
                    chk.instance(K2, f'{cname}(...) in {f.fq}')
                    if not (f.cls is dbc and f.name == owner):
                        chk.violation(K2, f.module.rel, f.qualname, unparse(c),
                                      f'{cname} constructed outside LocalModelDirectoryDatabase.{owner}()',
                                      line=c.lineno,
                                      witness='stores/reads through this object bypass the lock and the PENDING '
                                              'marker: a crash leaves a partial entry that readers accept')
        if sites == 0:
            raise AnalysisError(f'no construction site of {cname} found')
    tmd = base.classes.get('TransactionalModelDatabase')
    if tmd is None:
        raise AnalysisError('TransactionalModelDatabase not found')
    for name, f in tmd.methods.items():
        if not (name.startswith('store_') or name.startswith('retrieve_')):
            continue
        want = 'transaction' if name.startswith('store_') else 'snapshot'
        body = [s for s in f.node.body if not (isinstance(s, ast.Expr) and isinstance(s.value, ast.Constant))]
        chk.instance(K2, f'TransactionalModelDatabase.{name} wraps {want}().{name}')
        ok = False
        withs = [s for s in body if isinstance(s, ast.With)]
        # statements around the with-block may only bind locals / return (e.g. `action = methodcaller(name, ...)`)
        plain = all(isinstance(s, (ast.With, ast.Assign, ast.AnnAssign, ast.Return, ast.Pass)) for s in body)
        if len(withs) == 1 and plain and len(withs[0].items) == 1:
            w = withs[0]
            it = w.items[0]
            c = it.context_expr
            if isinstance(c, ast.Call) and isinstance(c.func, ast.Attribute) and c.func.attr == want \
                    and isinstance(c.func.value, ast.Name) and c.func.value.id == 'self' \
                    and isinstance(it.optional_vars, ast.Name):
                v = it.optional_vars.id
                # v.<name>(...) or methodcaller('<name>', ...)(v) (the caller object possibly bound to a local first)
                binds = {s.targets[0].id: s.value for s in body if isinstance(s, ast.Assign)
                         and isinstance(s.targets[0], ast.Name)}
                invoked = []
                for x in ast.walk(w):
                    if not isinstance(x, ast.Call):
                        continue
                    if isinstance(x.func, ast.Attribute) and isinstance(x.func.value, ast.Name) and x.func.value.id == v:
                        invoked.append(x.func.attr)
                    elif len(x.args) == 1 and isinstance(x.args[0], ast.Name) and x.args[0].id == v:
                        fn = binds.get(x.func.id) if isinstance(x.func, ast.Name) else x.func
                        if isinstance(fn, ast.Call) and (call_name(fn) == 'methodcaller') and fn.args \
                                and isinstance(fn.args[0], ast.Constant):
                            invoked.append(fn.args[0].value)
                        else:
                            invoked.append('<unknown callable>')
                ok = invoked == [name]
        if not ok:
            chk.violation(K2, base.rel, f.qualname, unparse(f.node.body[-1]),
                          f'{name} does not delegate to the same-named method inside `with self.{want}(...)`',
                          line=f.node.lineno,
                          witness=f'database.{name}(...) performs a different operation / runs outside the '
                                  f'lock+marker protocol')
    snap = db.classes['LocalModelDirectoryDatabaseSnapshot']
    for name, f in snap.methods.items():
        muts = [c for c in calls_in(f.node) if call_name(c) in (FS_MUTATORS - {'copy2', 'copytree', 'copy'})
                or (open_mode(c) or 'r')[0] in 'wax']
        chk.instance(K2, f'Snapshot.{name}: {len(muts)} mutating calls')
        for c in muts:
            chk.violation(K2, rel, f.qualname, unparse(c), 'a snapshot (shared lock) method mutates the file system',
                          line=c.lineno, witness='two concurrent readers write the same entry under a shared lock')

    # ------------------------------------------------------------------ K3 publish after write
    txn = db.classes['LocalModelDirectoryDatabaseTransaction']
    sm = txn.methods.get('store_model')
    if sm is None:
        raise AnalysisError('Transaction.store_model not found')
    cfg = CFG(sm.node)
    n_k3 = 0
    for t in [n for n in cfg.nodes.values() if n.kind == 'test']:
        tc = [c for c in node_calls(t) if isinstance(c.func, ast.Attribute)
              and c.func.attr in ('is_dir', 'exists', 'is_file') and isinstance(c.func.value, ast.Name)]
        if not tc and isinstance(t.ast, ast.Compare) and isinstance(t.ast.left, ast.Name) \
                and isinstance(t.ast.ops[0], ast.IsNot) and isinstance(t.ast.comparators[0], ast.Constant) \
                and t.ast.comparators[0].value is None:
            # `x = next(idx.iterdir(), None) if idx.is_dir() else None; if x is not None:` tests the index through x
            d_ = _def_of(sm.node, t.ast.left.id)
            if d_ is not None:
                tc = [c for c in ast.walk(d_) if isinstance(c, ast.Call) and isinstance(c.func, ast.Attribute)
                      and c.func.attr in ('is_dir', 'exists', 'is_file') and isinstance(c.func.value, ast.Name)]
        if len(tc) != 1:
            continue
        idx = tc[0].func.value.id
        true_reach = set()
        for m in cfg.succ(t.id, ['true']):
            true_reach |= cfg.reachable(m, labels_excluded=('exc', 'fexc'))
        false_reach = set()
        for m in cfg.succ(t.id, ['false']):
            false_reach |= cfg.reachable(m, labels_excluded=('exc', 'fexc'))
        only_true = true_reach - false_reach
        only_false = false_reach - true_reach
        # reuse branch: returns early or reads files
        early_return = any(cfg.nodes[n].kind == 'return' for n in only_true)
        reads = [cfg.nodes[n] for n in only_true if any(call_name(c) in ('read_json', 'read_csv', 'open', 'iterdir',
                                                                       'read_text', 'parse_model')
                                                        for c in node_calls(cfg.nodes[n]))]
        if not (early_return or reads):
            continue
        region = only_false if not early_return else false_reach
        # names derived from the index path by assignments executed on the create path only
        idx_names = {idx}
        changed = True
        while changed:
            changed = False
            for n in region:
                a = cfg.nodes[n].ast
                if isinstance(a, ast.Assign) and isinstance(a.targets[0], ast.Name) \
                        and names(a.value) & idx_names and a.targets[0].id not in idx_names:
                    idx_names.add(a.targets[0].id)
                    changed = True
        creators = [cfg.nodes[n] for n in region
                    if any(isinstance(c.func, ast.Attribute) and c.func.attr in ('touch', 'mkdir', 'symlink_to')
                           and names(c.func.value) & idx_names for c in node_calls(cfg.nodes[n]))]
        # early-return form: the content writer that writes the tested file itself publishes it
        idx_def = _def_of(sm.node, idx)
        publishers = [] if not early_return else [
            cfg.nodes[n] for n in region
            if any(call_name(c) in CONTENT_WRITERS and (
                any(isinstance(a, ast.Name) and a.id == idx for a in c.args)
                or any(idx_def is not None and unparse(a) == unparse(idx_def) for a in c.args))
                for c in node_calls(cfg.nodes[n]))]
        if early_return and not publishers:
            raise AnalysisError(f'K3: cannot find the call that writes `{idx}` in store_model')
        writers = [cfg.nodes[n] for n in region
                   if any(call_name(c) in CONTENT_WRITERS for c in node_calls(cfg.nodes[n]))]
        n_k3 += 1
        chk.instance(K3, f'index `{idx}` tested by `{t.text()}`: creators={[c.text() for c in creators]}, '
                         f'publishers={[c.text() for c in publishers]}, writers={[w.text() for w in writers]}')
        for c in creators + publishers:
            later = [w for w in writers if w.id != c.id and w.id in cfg.reachable(c.id, labels_excluded=('exc', 'fexc'))
                     and w.id not in {p.id for p in publishers}]
            for w in later:
                chk.violation(K3, rel, sm.qualname, f'{c.text()} before {w.text()}',
                              f'`{idx}` (whose presence makes later stores take the reuse branch) is created before '
                              f'the content it promises is written',
                              line=c.line,
                              witness='crash (exception or process death) between the two operations: every later '
                                      'store of a model with the same dataset/key takes the reuse branch and fails '
                                      '(FileNotFoundError / StopIteration) or skips writing')
    # an index directory can be left empty by an interrupted store: reading its first entry needs a default
    for c in [c for c in ast.walk(sm.node) if isinstance(c, ast.Call) and unparse(c.func) == 'next' and c.args
              and isinstance(c.args[0], ast.Call) and isinstance(c.args[0].func, ast.Attribute)
              and c.args[0].func.attr == 'iterdir']:
        ok = len(c.args) == 2
        chk.instance(K3, f'`{unparse(c)}` tolerates an empty index directory: {ok}')
        if not ok:
            chk.violation(K3, rel, sm.qualname, unparse(c),
                          'the index directory is created before its entry; a store that dies in between leaves it empty and '
                          'every later store of a model with that dataset raises StopIteration', line=c.lineno,
                          witness='kill the process between h_dir.mkdir() and index_path.touch(), then store any model that '
                                  'uses the same dataset')
    if n_k3 < 2:
        raise AnalysisError(f'K3: expected the model-file short-circuit and the dataset index test in store_model, '
                            f'found {n_k3} index tests')

    # ------------------------------------------------------------------ K4/K5/K6 context files
    lc = ctx.classes['LocalDirectoryContext']
    crel = ctx.rel
    shared_props = {'_annotations_path', '_log_path'}
    for name, f in lc.methods.items():
        if name.startswith('_init') or name == '__init__':
            continue
        # locals bound to a shared file path
        pathvars = {}
        for n in walk_no_nested(f.node):
            if isinstance(n, ast.Assign) and isinstance(n.targets[0], ast.Name) \
                    and isinstance(n.value, ast.Attribute) and n.value.attr in shared_props \
                    and isinstance(n.value.value, ast.Name) and n.value.value.id == 'self':
                pathvars[n.targets[0].id] = n.value.attr
        if not pathvars:
            # direct use self._log_path inside open()
            if not any(isinstance(n, ast.Attribute) and n.attr in shared_props for n in walk_no_nested(f.node)):
                continue
        accesses = []   # (call, mode, pathvar)
        for c in calls_in(f.node):
            mode = open_mode(c)
            tgt = None
            if mode is not None and c.args:
                tgt = c.args[0]
            elif call_name(c) in ('read_csv', 'read_text', 'write_text', 'read_json') and c.args:
                tgt, mode = c.args[0], ('w' if 'write' in call_name(c) else 'r')
            if tgt is None:
                continue
            key = unparse(tgt)
            if (isinstance(tgt, ast.Name) and tgt.id in pathvars) or \
                    (isinstance(tgt, ast.Attribute) and tgt.attr in shared_props):
                accesses.append((c, mode, key))
        # K5
        for c, mode, key in accesses:
            need = '_write_lock' if mode[0] in 'wax' or '+' in mode else None
            holder = None
            for w in walk_no_nested(f.node):
                if isinstance(w, ast.With) and any(x is c for x in ast.walk(w)):
                    for it in w.items:
                        ce = it.context_expr
                        # self._write_lock(path) / a module-level _write_lock(path) / path_lock(<lock file>, shared=..) directly
                        lname = ce.func.attr if isinstance(ce, ast.Call) and isinstance(ce.func, ast.Attribute) else (
                            ce.func.id if isinstance(ce, ast.Call) and isinstance(ce.func, ast.Name) else None)
                        if lname in ('_read_lock', '_write_lock') and ce.args and unparse(ce.args[0]) == key:
                            if holder != '_write_lock':
                                holder = lname
            chk.instance(K5, f'{name}: {unparse(c)[:60]} mode {mode} under {holder}')
            if holder is None or (need and holder != need):
                chk.violation(K5, crel, f.qualname, unparse(c),
                              f'access (mode {mode}) of the shared file `{key}` is not inside '
                              f'{"self." + (need or "_read_lock/_write_lock")}({key})', line=c.lineno,
                              witness='two workers log/annotate concurrently: interleaved or lost lines; a reader '
                                      'parses a half-written file')
        # K4 read-modify-write with truncation
        modes = {}
        for c, mode, key in accesses:
            modes.setdefault(key, []).append((mode, c))
        for key, lst in modes.items():
            has_r = any(m[0] == 'r' for m, _ in lst)
            for m, c in lst:
                if m[0] == 'w' and has_r:
                    chk.instance(K4, f'{name}: read-modify-write of {key}')
                    chk.violation(K4, crel, f.qualname, unparse(c),
                                  f'`{key}` is read and then truncated in place by open(..., "w"): the rewrite is not '
                                  f'atomic', line=c.lineno,
                                  witness='process death after the truncating open and before/within writelines: the '
                                          'annotations of all previously committed models are lost, '
                                          'retrieve_model_entry raises KeyError for them')
        # atomic form: writes go to a temp path followed by replace(): count as instance
        if name == 'store_annotation':
            reps = [c for c in calls_in(f.node) if call_name(c) in ('replace', 'rename')]
            chk.instance(K4, f'{name}: {len(reps)} atomic replace call(s)')
            wr = [c for c in calls_in(f.node) if (open_mode(c) or 'r')[0] in 'wa']
            if not wr:
                raise AnalysisError('store_annotation no longer writes a file (anchor moved)')
            if not any(key in pathvars or True for _, _, key in accesses):
                pass
            if not any(m[0] == 'w' for m, _ in [x for v in modes.values() for x in v]):
                # writer uses a temp file: it must be followed by replace onto the shared path
                ok = any(any(isinstance(a, ast.Name) and a.id in pathvars for a in c.args) for c in reps)
                if not ok:
                    chk.violation(K4, crel, f.qualname, 'temp file is never moved onto the annotations path',
                                  'annotation rewrite does not publish its result', line=f.node.lineno,
                                  witness='store_annotation has no effect: descriptions are lost')
    # K7 record selection agreement
    tests_by = {}
    for meth in ('store_annotation', 'retrieve_annotation'):
        f = lc.methods.get(meth)
        if f is None:
            raise AnalysisError(f'LocalDirectoryContext.{meth} not found')
        ts = _record_tests(f.node)
        if not ts:
            raise AnalysisError(f'{meth}: no record selection test found')
        tests_by[meth] = ts
        for t in ts:
            chk.instance(K7, f'{meth}: if {unparse(t)}')
            if not _is_first_field_eq(t, f.node):
                chk.violation(K7, crel, f.qualname, 'if ' + unparse(t),
                              'the record of a model is not selected by equality of the first field with the name',
                              line=t.lineno,
                              witness='two stored models where one name is a prefix/substring of the other '
                                      '(run1, run10): storing or reading one hits the other one\'s record, the '
                                      'earlier model loses or swaps its description')
    # K8 positional dicts
    n8 = 0
    for c in repo.all_classes():
        td, fd = c.methods.get('to_dict'), c.methods.get('from_dict')
        if not td or not fd:
            continue
        # {i: x for i, x in enumerate(xs)} or dict(enumerate(xs)): keys are positions
        positional = any(isinstance(n, ast.DictComp) and any(
            isinstance(g.iter, ast.Call) and call_name(g.iter) == 'enumerate' for g in n.generators)
            for n in ast.walk(td.node)) or any(
            isinstance(n, ast.Call) and call_name(n) == 'dict' and n.args and isinstance(n.args[0], ast.Call)
            and call_name(n.args[0]) == 'enumerate' for n in ast.walk(td.node))
        if not positional:
            continue
        n8 += 1
        sorts = [x for x in ast.walk(fd.node) if isinstance(x, ast.Call) and call_name(x) == 'sorted']
        chk.instance(K8, f'{c.fq}: positional to_dict, from_dict has {len(sorts)} sorted() call(s)')
        for x in sorts:
            keyfn = [kw for kw in x.keywords if kw.arg == 'key']
            numeric = keyfn and ('int' in names(keyfn[0].value) or 'float' in names(keyfn[0].value))
            if not numeric:
                chk.violation(K8, c.module.rel, fd.qualname, unparse(x),
                              'position keys become strings in JSON; sorting them lexicographically reorders '
                              'sequences with more than 10 elements', line=x.lineno,
                              witness='store and retrieve a model entry whose log has 12 messages: they come back '
                                      'in the order 0, 1, 10, 11, 2, ...')
    if n8 == 0:
        raise AnalysisError('K8: no positional to_dict found (Log.to_dict moved?)')

    # K6
    smf = lc.methods.get('store_message')
    if smf is None:
        raise AnalysisError('LocalDirectoryContext.store_message not found')
    str_params = {a.arg for a in smf.node.args.args if a.annotation is not None and unparse(a.annotation) == 'str'}
    def csv_quoted(e):
        # '"' + X.replace('"', '""') + '"': wrapped in quotes with the embedded quotes doubled
        parts = []

        def flat(x):
            if isinstance(x, ast.BinOp) and isinstance(x.op, ast.Add):
                flat(x.left)
                flat(x.right)
            else:
                parts.append(x)
        flat(e)
        if isinstance(e, ast.JoinedStr):
            parts = list(e.values)
            parts = [p_.value if isinstance(p_, ast.FormattedValue) else p_ for p_ in parts]
        if len(parts) < 3:
            return False
        q = [isinstance(p_, ast.Constant) and p_.value == '"' for p_ in (parts[0], parts[-1])]
        mid = parts[1:-1]
        doubled = all(any(isinstance(c_, ast.Call) and call_name(c_) == 'replace' and len(c_.args) == 2
                          and isinstance(c_.args[0], ast.Constant) and c_.args[0].value == '"'
                          and isinstance(c_.args[1], ast.Constant) and c_.args[1].value == '""' for c_ in ast.walk(p_))
                      for p_ in mid)
        return all(q) and doubled
    # helpers that quote: nested functions, methods of the class or functions of the module whose returned expression
    # has that shape (decided from the body, not from the helper's name)
    cands = {n.name: n for n in ast.walk(smf.node) if isinstance(n, ast.FunctionDef) and n is not smf.node}
    cands.update({k: v.node for k, v in lc.methods.items()})
    cands.update({k: v.node for k, v in lc.module.functions.items() if v.cls is None and v.parent is None})
    helpers = set()
    for hn, hnode in cands.items():
        rets = [r.value for r in ast.walk(hnode) if isinstance(r, ast.Return) and r.value is not None]
        if len(rets) == 1 and csv_quoted(rets[0]):
            helpers.add(hn)
    rows = [c for c in ast.walk(smf.node) if isinstance(c, ast.Call) and call_name(c) in ('write', 'writelines', 'writerow')]
    if not rows:
        raise AnalysisError('store_message: no write call found')
    for c in rows:
        for js in [x for x in ast.walk(c) if isinstance(x, ast.JoinedStr)]:
            for fv in [v for v in js.values if isinstance(v, ast.FormattedValue)]:
                e = fv.value
                free = names(e) & str_params
                quoted = (isinstance(e, ast.Call) and (call_name(e) in helpers or call_name(e) in ('dumps',))) \
                    or csv_quoted(e)
                chk.instance(K6, f'store_message field {{{unparse(e)}}}: free text={bool(free)} quoted={quoted}')
                if free and not quoted:
                    chk.violation(K6, crel, smf.qualname, '{' + unparse(e) + '} unquoted in ' + unparse(js)[:80],
                                  f'free-text parameter {sorted(free)} is written into the CSV log without quoting',
                                  line=c.lineno,
                                  witness='log a message for a model whose name contains a comma (context path '
                                          '"ctx/run,1"): retrieve_log raises ParserError for the whole log, '
                                          'including earlier messages')
        if call_name(c) == 'writerow':
            chk.instance(K6, 'csv.writer row (quoting by the csv module)')
    # annotation records are line oriented: name and annotation are free text
    saf = lc.methods.get('store_annotation')
    for js in [x for x in ast.walk(saf.node) if isinstance(x, ast.JoinedStr)]:
        for fv in [v for v in js.values if isinstance(v, ast.FormattedValue)]:
            e = fv.value
            if isinstance(e, ast.Name) and e.id == 'annotation':
                chk.instance(K6, f'store_annotation field {{{unparse(e)}}} in line record')
                chk.violation(K6, crel, saf.qualname, '{annotation} unescaped in line-oriented record ' + unparse(js),
                              'the annotation (model description, free text) is written verbatim into a '
                              'one-line-per-model file', line=js.lineno,
                              witness='a model description containing a newline: retrieve_annotation returns only '
                                      'the first line and the remainder is parsed as another model\'s record')
                break
        else:
            continue
        break
    run_k9(chk, repo)
    run_k10(chk, repo)
    run_k11(chk, repo)
    run_k12_k13(chk, repo)
    run_k14(chk, repo)


def _record_tests(fn):
    """tests that select a record by the parameter `name`: `if` tests, conditional expressions and comprehension filters
    that mention it (inside `for line in ...` loops, in comprehensions, or as membership tests on the stored names)"""
    out = []
    for n in ast.walk(fn):
        ts = []
        if isinstance(n, (ast.If, ast.IfExp)):
            ts = [n.test]
        elif isinstance(n, ast.comprehension):
            ts = list(n.ifs)
        for t in ts:
            if 'name' in names(t) and not (isinstance(t, ast.Compare) and isinstance(t.ops[0], (ast.Is, ast.IsNot))):
                out.append(t)
    return out


def _first_field(e, fn, depth=4):
    """e denotes the first field of a stored line: `line.split(sep, 1)[0]` (directly, through a local, or as the loop /
    comprehension variable over a list of such values, also zipped)"""
    if depth == 0:
        return False
    if isinstance(e, ast.Subscript) and isinstance(e.slice, ast.Constant) and e.slice.value == 0:
        v = e.value
        if isinstance(v, ast.Name):
            v = _def_of(fn, v.id)
        return isinstance(v, ast.Call) and isinstance(v.func, ast.Attribute) and v.func.attr in ('split', 'partition')
    if isinstance(e, ast.Name):
        d = _def_of(fn, e.id)
        if d is not None and _first_field(d, fn, depth - 1):
            return True
        # variable of a loop / comprehension over a collection of first fields
        for n in ast.walk(fn):
            if isinstance(n, (ast.comprehension, ast.For)):
                tg, it = n.target, n.iter
                if isinstance(tg, ast.Name) and tg.id == e.id and _first_fields(it, fn, depth - 1):
                    return True
                if isinstance(tg, ast.Tuple) and isinstance(it, ast.Call) and call_name(it) == 'zip' \
                        and len(tg.elts) == len(it.args):
                    for t_, a_ in zip(tg.elts, it.args):
                        if isinstance(t_, ast.Name) and t_.id == e.id and _first_fields(a_, fn, depth - 1):
                            return True
    return False


def _first_fields(e, fn, depth=4):
    """e is a collection of first fields: `[line.split(' ', 1)[0] for line in ...]` (or a local bound to one)"""
    if depth == 0:
        return False
    if isinstance(e, ast.Name):
        d = _def_of(fn, e.id)
        return d is not None and _first_fields(d, fn, depth - 1)
    if isinstance(e, (ast.ListComp, ast.SetComp, ast.GeneratorExp)):
        return _first_field(e.elt, fn, depth - 1)
    if isinstance(e, ast.Call) and call_name(e) in ('list', 'set', 'tuple', 'frozenset') and len(e.args) == 1:
        return _first_fields(e.args[0], fn, depth - 1)
    return False


def _is_first_field_eq(test, fn):
    """`<first field> == name` (either operand order, also !=), or `name in / not in <collection of first fields>`"""
    if not (isinstance(test, ast.Compare) and len(test.ops) == 1):
        return False
    sides = [test.left, test.comparators[0]]
    if isinstance(test.ops[0], (ast.Eq, ast.NotEq)):
        nm = [s_ for s_ in sides if isinstance(s_, ast.Name) and s_.id == 'name']
        other = [s_ for s_ in sides if not (isinstance(s_, ast.Name) and s_.id == 'name')]
        return bool(nm) and len(other) == 1 and _first_field(other[0], fn)
    if isinstance(test.ops[0], (ast.In, ast.NotIn)):
        return isinstance(sides[0], ast.Name) and sides[0].id == 'name' and _first_fields(sides[1], fn)
    return False


def _def_of(fn, name):
    for n in walk_no_nested(fn):
        if isinstance(n, ast.Assign) and isinstance(n.targets[0], ast.Name) and n.targets[0].id == name:
            return n.value
    return None


def run_k9(chk, repo):
    K9 = chk.rule('K9', 'files keyed by model name live where the name -> key links live (per context): annotations next to '
                        'the models directory', floor=1)
    m = repo.module('pharmpy.workflows.contexts.local_directory')
    c = m.classes.get('LocalDirectoryContext')
    if c is None:
        raise AnalysisError('LocalDirectoryContext not found')

    def base(prop):
        f = c.methods.get(prop)
        if f is None:
            raise AnalysisError(f'LocalDirectoryContext.{prop} not found')
        r = next((n.value for n in walk_no_nested(f.node) if isinstance(n, ast.Return)), None)
        if isinstance(r, ast.BinOp) and isinstance(r.op, ast.Div):
            return unparse(r.left)
        raise AnalysisError(f'K9: {prop} is not <base> / <name>')
    bm, ba = base('_models_path'), base('_annotations_path')
    chk.instance(K9, f'_models_path under {bm}; _annotations_path under {ba}')
    if bm != ba:
        chk.violation(K9, m.rel, 'LocalDirectoryContext._annotations_path', f'{ba} / annotations (names under {bm})',
                      'model names are per context, the annotations file is not: two contexts of one run that both store `input` '
                      'or `final` overwrite each other\'s description', line=c.methods['_annotations_path'].node.lineno,
                      witness='a top context and two subcontexts each storing input/final: retrieve_model_entry returns another '
                              'model\'s description')


def run_k10(chk, repo):
    """the marker of an unfinished store is looked for where it is created"""
    from sa import reach
    from sa.cfg import CFG
    K10 = chk.rule('K10', 'the PENDING marker has the same path expression in transaction() (creates / removes it) and '
                          'snapshot() (refuses while it exists)', floor=2)
    m = repo.module('pharmpy.workflows.model_database.local_directory')
    db = m.classes.get('LocalModelDirectoryDatabase')
    if db is None:
        raise AnalysisError('LocalModelDirectoryDatabase not found')
    texts = {}
    for name in ('snapshot', 'transaction'):
        f = db.methods.get(name)
        if f is None:
            raise AnalysisError(f'LocalModelDirectoryDatabase.{name} not found')
        cfg = CFG(f.node)
        found = []
        for b in ast.walk(f.node):
            if isinstance(b, ast.BinOp) and isinstance(b.op, ast.Div) and unparse(b.right).endswith('FILE_PENDING'):
                nid = reach.node_containing(cfg, b)
                e = reach.expand_expr(cfg, nid, b.left) if nid is not None else b.left
                found.append(unparse(e))
        if not found:
            raise AnalysisError(f'K10: PENDING marker path not found in {name}()')
        texts[name] = sorted(set(found))
        chk.instance(K10, f'{name}(): PENDING marker under {texts[name]}')
    if texts['snapshot'] != texts['transaction']:
        chk.violation(K10, m.rel, 'LocalModelDirectoryDatabase.snapshot / transaction',
                      f'{texts["snapshot"]} vs {texts["transaction"]}',
                      'readers look for the marker of an unfinished store in another place than writers put it: a half written '
                      'entry is returned as complete', line=db.methods['snapshot'].node.lineno,
                      witness='a store interrupted after the model file and before results.json, then retrieve_model_entry of '
                              'that key: the entry comes back without results instead of raising PendingTransactionError')


def run_k11(chk, repo):
    """write-then-publish: a file written under a temporary name is renamed over the final name only after it has been closed
    (flushed); the rename must not sit inside the `with open(tmp, 'w')` block"""
    K11 = chk.rule('K11', 'workflows: os.replace / rename of a temporary file comes after the with-block that writes it', floor=1)
    n = 0
    for f in repo.all_funcs():
        if not f.module.name.startswith('pharmpy.workflows'):
            continue
        for W in [x for x in ast.walk(f.node) if isinstance(x, ast.With)]:
            opened = []
            for it in W.items:
                c = it.context_expr
                if isinstance(c, ast.Call) and dotted(c.func) in ('open', 'io.open') and c.args and len(c.args) >= 2 \
                        and isinstance(c.args[1], ast.Constant) and any(ch in str(c.args[1].value) for ch in 'wax'):
                    opened.append(unparse(c.args[0]))
                elif isinstance(c, ast.Call) and isinstance(c.func, ast.Attribute) and c.func.attr == 'open' and c.args \
                        and isinstance(c.args[0], ast.Constant) and any(ch in str(c.args[0].value) for ch in 'wax'):
                    opened.append(unparse(c.func.value))
            if not opened:
                continue
            for c in [x for s_ in W.body for x in ast.walk(s_) if isinstance(x, ast.Call)]:
                fn = dotted(c.func) or ''
                moved = unparse(c.args[0]) if fn in ('os.replace', 'os.rename', 'shutil.move') and c.args else (
                    unparse(c.func.value) if isinstance(c.func, ast.Attribute) and c.func.attr in ('replace', 'rename')
                    and 'path' in unparse(c.func.value).lower() else None)
                if moved in opened:
                    chk.violation(K11, f.module.rel, f.qualname, unparse(c)[:80],
                                  'the temporary file is published while it is still open: its buffered content reaches the '
                                  'final name only when the block closes', line=c.lineno,
                                  witness='a process that dies between the rename and the close leaves an empty (or truncated) '
                                          'file under the final name: earlier entries are lost')
        for c in calls_in(f.node):
            if (dotted(c.func) or '') in ('os.replace', 'os.rename'):
                n += 1
                chk.instance(K11, f'{f.qualname}: {unparse(c)[:60]} examined')
    if n == 0:
        raise AnalysisError('K11: no os.replace / os.rename found in pharmpy.workflows')


def run_k12_k13(chk, repo):
    """K12: what is stored under a key besides the model itself (results, metadata, local files) is not a function of the key:
    a later store replaces it, so its write is not skipped because the destination already exists. K13: every directory the
    database creates may already be there (left by an interrupted store, created by a concurrent one): mkdir tolerates it"""
    from sa.cfg import CFG
    from sa import reach
    K12 = chk.rule('K12', 'transaction store_modelfit_results / store_metadata / store_local_file: the write is not conditional '
                          'on the destination not existing yet (the key hashes the model only)', floor=3)
    mm = repo.module('pharmpy.workflows.model_database.local_directory')
    tc = mm.classes.get('LocalModelDirectoryDatabaseTransaction')
    if tc is None:
        raise AnalysisError('K12: LocalModelDirectoryDatabaseTransaction not found')
    WRITES = {'to_json', 'to_csv', 'dump', 'copy2', 'copy', 'copyfile', 'write_text', 'write_bytes', 'write'}
    n = 0
    for mn in ('store_modelfit_results', 'store_metadata', 'store_local_file'):
        f = tc.methods.get(mn)
        if f is None:
            raise AnalysisError(f'K12: {tc.name}.{mn} not found')
        cfg = CFG(f.node)
        wnodes = [nd for nd in cfg.nodes.values() if nd.ast is not None and nd.kind in ('stmt', 'with_enter') and any(
            isinstance(c, ast.Call) and (call_name(c) or '').split('.')[-1] in WRITES | {'open'} for c in ast.walk(
                nd.ast if isinstance(nd.ast, ast.AST) else ast.Module(body=[], type_ignores=[])))]
        if not wnodes:
            raise AnalysisError(f'K12: no write found in {mn}')
        for w in wnodes:
            n += 1
            bad = None
            for t in [x for x in cfg.nodes.values() if x.kind == 'test']:
                for lab in ('true', 'false'):
                    if not cfg.edge_dominates(t.id, lab, w.id):
                        continue
                    for c in [c for c in ast.walk(t.ast) if isinstance(c, ast.Call) and isinstance(c.func, ast.Attribute)
                              and c.func.attr in ('is_file', 'exists', 'is_dir')]:
                        try:
                            recv = unparse(reach.expand_expr(cfg, t.id, c.func.value))
                        except Exception:
                            recv = unparse(c.func.value)
                        if 'self.database' in recv or 'self.key' in recv:
                            bad = (t, c, lab)
            chk.instance(K12, f'{mn}: `{w.text()[:50]}` independent of the destination existing: {bad is None}')
            if bad:
                t, c, lab = bad
                chk.violation(K12, mm.rel, f.qualname, f'{w.text()[:60]} under `{unparse(t.ast)[:60]}`',
                              'the write depends on whether the destination exists already: a second store of the same model '
                              '(same key) with other results / metadata is silently dropped', line=t.line,
                              witness='store the entry with results r1, then with results r2 (same model): retrieve returns r1')
    K13 = chk.rule('K13', 'model database: every mkdir tolerates an existing directory (exist_ok=True)', floor=8)
    for f in dict.values(mm.functions):
        for c in [c for c in ast.walk(f.node) if isinstance(c, ast.Call) and isinstance(c.func, ast.Attribute)
                  and c.func.attr in ('mkdir', 'makedirs')]:
            if f.parent is not None:
                continue
            ok = any(k.arg == 'exist_ok' and isinstance(k.value, ast.Constant) and k.value.value is True for k in c.keywords)
            chk.instance(K13, f'{f.qualname}: {unparse(c)[:60]}: {ok}')
            if not ok:
                chk.violation(K13, mm.rel, f.qualname, unparse(c)[:80],
                              'the directory can exist already - left behind by a store that died after creating it, or created '
                              'by a concurrent store: every later store that needs it fails with FileExistsError',
                              line=c.lineno,
                              witness='kill a store between creating .datasets/.hash/<hash>/ and touching the entry inside it, '
                                      'then store another model that shares the dataset')


def run_k14(chk, repo):
    """K14: Context._store_model publishes a name in three steps (database transaction, store_key, store_annotation); the
    reader must not present a name before the last step has happened. Structural clause: in Context._retrieve_me every
    retrieve_* call (key, model entry, annotation) is exception-transparent - none sits in a try whose handler swallows the
    lookup failure and substitutes a value - and all three pieces the writer publishes are read."""
    K14 = chk.rule('K14', 'Context._retrieve_me: the lookups of key, model entry and annotation propagate their failure (a '
                          'half-published name stays invisible)', floor=3)
    m = repo.module('pharmpy.workflows.contexts.baseclass')
    c = m.classes.get('Context')
    f = c.methods.get('_retrieve_me') if c else None
    w = c.methods.get('_store_model') if c else None
    if f is None or w is None:
        raise AnalysisError('K14: Context._retrieve_me / _store_model not found')
    stored = {call_name(x).split('.')[-1][len('store_'):] for x in calls_in(w.node)
              if (call_name(x) or '').split('.')[-1].startswith('store_')}
    stored = {('model_entry' if s.startswith('model') else s) for s in stored}
    parents = {}
    for p in ast.walk(f.node):
        for ch in ast.iter_child_nodes(p):
            parents[ch] = p
    SWALLOW = {'KeyError', 'LookupError', 'Exception', 'BaseException', 'FileNotFoundError', 'OSError'}
    read = set()
    for x in calls_in(f.node):
        nm = (call_name(x) or '').split('.')[-1]
        if not nm.startswith('retrieve_'):
            continue
        read.add(nm[len('retrieve_'):])
        swallowed = None
        n = x
        while n in parents:
            p = parents[n]
            if isinstance(p, ast.Try) and any(n is s or any(n is d for d in ast.walk(s)) for s in p.body):
                for h in p.handlers:
                    caught = {e_.id for e_ in ast.walk(h.type) if isinstance(e_, ast.Name)} if h.type is not None else {'BaseException'}
                    reraises = any(isinstance(r_, ast.Raise) for r_ in ast.walk(h))
                    if caught & SWALLOW and not reraises:
                        swallowed = h
            n = p
        ok = swallowed is None
        chk.instance(K14, f'_retrieve_me: {unparse(x)[:50]} propagates its failure: {ok}')
        if not ok:
            chk.violation(K14, m.rel, f.qualname, f'{nm} under except {unparse(swallowed.type) if swallowed.type else ""}',
                          f'a failing {nm} is replaced by a substitute value: a name whose store was interrupted before '
                          f'{nm.replace("retrieve_", "store_")} is returned as if it were complete', line=x.lineno,
                          witness='crash between store_key and the os.replace of the annotations file while storing a model '
                                  'under a second name: retrieve_model_entry(second name) returns the first description')
    missing = stored - read
    if missing:
        chk.violation(K14, m.rel, f.qualname, f'pieces not read: {sorted(missing)}',
                      f'_store_model publishes {sorted(stored)} but _retrieve_me reads only {sorted(read)}',
                      line=f.node.lineno, witness='a store interrupted before the unread piece is published is visible')
