"""C10 Statement dataflow analyses: D1 symbol accessors cover every expression field through the right
accessor; D2 backward scans cover index 0 and start from the end; D3 dependency edges for both statement kinds."""
from __future__ import annotations

import ast

from sa.classes import init_fields, init_param_of_field, fields_of, prop_field_map, self_name, method_fields
from sa.report import AnalysisError
from sa.srcmodel import unparse, walk_no_nested, calls_in, dotted

MOD = 'pharmpy.model.statements'
# fields that hold a plain symbol / the state function itself (one-line reasons)
SYMBOL_FIELDS = {'_symbol': 'lhs of an assignment is a Symbol by Assignment.create',
                 '_t': 'the independent variable is a Symbol'}
EXEMPT_FREE = {('Compartment', '_amount'): 'the amount is the state function A_X(t) itself, not a dependency',
               ('Compartment', '_name'): 'str'}
EXEMPT_SUBS = {('CompartmentalSystem', '_t'): 'the independent variable is not substituted by design',
               ('Compartment', '_name'): 'str'}


def expr_fields(repo, c):
    """constructor fields whose parameter annotation mentions Expr / Dose"""
    f = repo.find_method(c, '__init__')
    ann = {a.arg: unparse(a.annotation) for a in f.node.args.args + f.node.args.kwonlyargs if a.annotation is not None}
    p_of = init_param_of_field(repo, c)
    out = {}
    for fld, p in p_of.items():
        a = ann.get(p, '')
        if 'Expr' in a or 'Dose' in a:
            out[fld] = a
    return out


def run(chk, repo, tier):
    m = repo.module(MOD)
    rel = m.rel
    chk.explanation = (
        'D1: for Assignment, Bolus, Infusion, Compartment and CompartmentalSystem, free_symbols / rhs_symbols / subs '
        'consult every expression-valued constructor field, and do so through .free_symbols / .subs (a raw field put '
        'into the result set is only a symbol for symbol-valued fields). D2: the scans that implement "latest earlier '
        'definition" semantics (dependencies, remove_symbol_definitions, _create_dependency_graph, reassign, '
        'full_expression) run backwards from the end and include index 0. D3: the dependency graph links a '
        'statement to assignments by lhs symbol and to the ODE system by its amounts. NOT decided: the graph '
        'algorithms on run-time statement lists (dependencies, remove_symbol_definitions, full_expression values).')
    D1 = chk.rule('D1', 'symbol accessors cover every expression field through the matching accessor', floor=10)
    D2 = chk.rule('D2', 'backward scans over statements start at the end and reach index 0', floor=4)
    D3 = chk.rule('D3', 'dependency edges: assignment by lhs symbol in rhs_symbols, ODE system by amounts', floor=2)

    for cname in ('Assignment', 'Bolus', 'Infusion', 'Compartment', 'CompartmentalSystem'):
        c = m.classes.get(cname)
        if c is None:
            raise AnalysisError(f'{cname} not found')
        ef = expr_fields(repo, c)
        if cname == 'CompartmentalSystem':
            ef = {'_g': 'graph (rates and compartments)', '_t': 'Expr'}
        props = prop_field_map(repo, c)
        inv = {}
        for p, f_ in props.items():
            inv.setdefault(f_, set()).add(p)
        for acc, meth_attr, exempt in (('free_symbols', 'free_symbols', EXEMPT_FREE), ('subs', 'subs', EXEMPT_SUBS)):
            f = c.methods.get(acc)
            if f is None:
                raise AnalysisError(f'{cname}.{acc} not found')
            me = self_name(f)
            used = fields_of(repo, c, f.node, me, through_methods=True)
            for fld in sorted(ef):
                if (cname, fld) in exempt:
                    continue
                chk.instance(D1, f'{cname}.{acc}: field {fld} ({ef[fld]}) consulted={fld in used}')
                if fld not in used:
                    chk.violation(D1, rel, f.qualname, f'{fld} not consulted by {acc}',
                                  f'{cname}.{acc} ignores the expression field `{fld}`', line=f.node.lineno,
                                  witness=f'a {cname} whose {fld.lstrip("_")} mentions a parameter P: '
                                          + ('dependencies / unused-parameter removal do not see P (P is removed although '
                                             'used)' if acc == 'free_symbols' else 'renaming P leaves the old symbol in '
                                                                                  'place'))
                    continue
                # accessor discipline: every occurrence of the field (or its trivial property) must be X.<acc>,
                # an iteration (for d in self.doses) or an argument position of a helper
                for n in ast.walk(f.node):
                    if isinstance(n, ast.Attribute) and isinstance(n.value, ast.Name) and n.value.id == me \
                            and (n.attr == fld or n.attr in inv.get(fld, ())):
                        par = _parent(f.node, n)
                        ok = isinstance(par, ast.Attribute) and par.attr in (meth_attr, 'free_symbols', 'subs',
                                                                             'edges', 'nodes', 'copy')
                        ok = ok or isinstance(par, (ast.For, ast.comprehension, ast.If, ast.Compare,
                                                    ast.BoolOp, ast.UnaryOp, ast.Assert))
                        # the graph is handed to helpers (_comps(self._g)); plain expression fields are not
                        ok = ok or (isinstance(par, (ast.Call, ast.keyword)) and (fld == '_g' or acc == 'free_symbols'))
                        if isinstance(par, ast.Call) and acc == 'free_symbols' and dotted(par.func) in ('set',):
                            ok = False
                        if isinstance(par, ast.Set) and fld in SYMBOL_FIELDS:
                            ok = True
                        if isinstance(par, (ast.Set, ast.Tuple, ast.List, ast.Return)) and fld not in SYMBOL_FIELDS \
                                and acc == 'free_symbols':
                            ok = False
                        if not ok:
                            chk.violation(D1, rel, f.qualname, f'{unparse(par) if par is not None else unparse(n)}',
                                          f'{cname}.{acc} uses the expression field `{fld}` itself instead of its '
                                          f'.{meth_attr}', line=n.lineno,
                                          witness=f"{cname} with {fld.lstrip('_')} = 2*AMT: free_symbols contains the "
                                                  f"expression 2*AMT, not the symbol AMT, so AMT is reported unused")
    # rhs_symbols of Assignment covers the expression
    a = m.classes['Assignment']
    rs = a.methods.get('rhs_symbols')
    chk.instance(D1, 'Assignment.rhs_symbols consults _expression')
    if rs is None or '_expression' not in fields_of(repo, a, rs.node, 'self'):
        chk.violation(D1, rel, 'Assignment.rhs_symbols', 'rhs_symbols does not read the expression',
                      'rhs_symbols ignores the right hand side', line=a.node.lineno,
                      witness='every dependency query returns an empty set')
    # CompartmentalSystem.free_symbols must use its own t
    cs = m.classes['CompartmentalSystem']
    fs = cs.methods['free_symbols']
    lit_t = [c_ for c_ in calls_in(fs.node) if dotted(c_.func) in ('Expr.symbol', 'Expr') and c_.args
             and isinstance(c_.args[0], ast.Constant)]
    chk.instance(D1, f'CompartmentalSystem.free_symbols literal symbols: {[unparse(x) for x in lit_t]}')
    for x in lit_t:
        chk.violation(D1, rel, fs.qualname, unparse(x),
                      'a literal symbol is reported instead of the system\'s own independent variable', line=x.lineno,
                      witness='a system created with t=TIME reports `t` as free symbol and not TIME')

    # ---------------------------------------------------------------- D2 backward scans
    st = m.classes.get('Statements')
    if st is None:
        raise AnalysisError('Statements not found')
    for meth in ('_create_dependency_graph', 'dependencies', 'remove_symbol_definitions', 'reassign',
                 'full_expression', '_lookup_last_assignment', 'find_assignment_index'):
        f = st.methods.get(meth)
        if f is None:
            continue
        for loop in [n for n in walk_no_nested(f.node) if isinstance(n, ast.For)]:
            it = loop.iter
            rngs = [c_ for c_ in ast.walk(it) if isinstance(c_, ast.Call) and dotted(c_.func) == 'range']
            rev = [c_ for c_ in ast.walk(it) if isinstance(c_, ast.Call) and dotted(c_.func) == 'reversed']
            if not rngs and not rev:
                continue
            for r in rngs:
                args = r.args
                desc = len(args) == 3 and unparse(args[2]) == '-1'
                chk.instance(D2, f'{meth}: for ... in {unparse(r)} (descending={desc})')
                if desc:
                    if unparse(args[1]) != '-1':
                        chk.violation(D2, rel, f.qualname, unparse(r),
                                      'a backward scan over statement indices stops before index 0', line=r.lineno,
                                      witness='a statement list whose first statement defines the symbol: it is not '
                                              'found / not linked, so its dependencies are missing from the answer')
                    # start must be len(..)-1 or <index>-1 (strictly earlier statements)
                    s0 = unparse(args[0]).replace(' ', '')
                    if not (s0.endswith('-1')):
                        chk.violation(D2, rel, f.qualname, unparse(r),
                                      'a backward scan does not start at the last / the previous index', line=r.lineno,
                                      witness='IndexError on every call, or a statement is linked to itself')
                else:
                    # ascending scans must not appear in the "latest definition" searches
                    if meth in ('dependencies', '_lookup_last_assignment', 'find_assignment_index'):
                        chk.violation(D2, rel, f.qualname, unparse(r),
                                      'the search for the defining statement runs forwards (finds the first, not the '
                                      'latest definition)', line=r.lineno,
                                      witness='X = 1; X = X + THETA; Y = X : dependencies(X) start from the first '
                                              'definition and miss THETA')
            for r in rev:
                chk.instance(D2, f'{meth}: for ... in {unparse(r)}')
        if meth == 'full_expression':
            loops = [n for n in walk_no_nested(f.node) if isinstance(n, ast.For)]
            if not loops or not any(isinstance(c_, ast.Call) and dotted(c_.func) == 'reversed'
                                    for lp in loops for c_ in ast.walk(lp.iter)) and not any(
                    isinstance(c_, ast.Call) and dotted(c_.func) == 'range' and len(c_.args) == 3
                    for lp in loops for c_ in ast.walk(lp.iter)):
                chk.violation(D2, rel, f.qualname, 'forward substitution loop',
                              'full_expression substitutes definitions in forward order', line=f.node.lineno,
                              witness='A = THETA; B = A; full_expression(B) returns A instead of THETA')
    # ---------------------------------------------------------------- D3 dependency graph edges
    g = st.methods.get('_create_dependency_graph')
    if g is None:
        raise AnalysisError('Statements._create_dependency_graph not found')
    src = unparse(g.node)
    edge_calls = [c_ for c_ in calls_in(g.node) if isinstance(c_.func, ast.Attribute) and c_.func.attr == 'add_edge']
    tests = [n.test for n in walk_no_nested(g.node) if isinstance(n, ast.If)]
    sym_test = any(isinstance(t, ast.Compare) and isinstance(t.ops[0], ast.In) and unparse(t.left).endswith('.symbol')
                   for t in tests)
    amt_test = any('amounts' in unparse(x) for x in ast.walk(g.node) if isinstance(x, ast.Attribute)) and \
        any('isdisjoint' in unparse(t) or 'amts' in unparse(t) or '&' in unparse(t) for t in tests)
    uses_rhs = any(isinstance(x, ast.Attribute) and x.attr == 'rhs_symbols' for x in ast.walk(g.node))
    chk.instance(D3, f'_create_dependency_graph: {len(edge_calls)} add_edge, symbol-in-rhs test={sym_test}, '
                     f'amounts test={amt_test}, uses rhs_symbols={uses_rhs}')
    chk.instance(D3, 'edge direction (user -> definition)')
    if len(edge_calls) < 2 or not sym_test or not amt_test or not uses_rhs:
        chk.violation(D3, rel, g.qualname, 'dependency edges',
                      'the dependency graph no longer links users to assignments (lhs symbol in rhs_symbols) and to the '
                      'ODE system (amounts)', line=g.node.lineno,
                      witness='F = A_CENTRAL/S1 after the ODE system: dependencies(F) miss CL and V')
    for c_ in edge_calls:
        if [unparse(a_) for a_ in c_.args[:2]] != ['i', 'j']:
            # direction is user(i) -> definition(j): callers rely on it (bfs_predecessors / dfs from user)
            outer = [n for n in walk_no_nested(g.node) if isinstance(n, ast.For)]
            chk.violation(D3, rel, g.qualname, unparse(c_),
                          'dependency edge direction changed', line=c_.lineno,
                          witness='remove_symbol_definitions removes statements that are still needed')


def _parent(root, node):
    for p in ast.walk(root):
        for ch in ast.iter_child_nodes(p):
            if ch is node:
                return p
    return None
