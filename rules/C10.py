"""C10 Statement dataflow analyses: D1 symbol accessors cover every expression field through the right
accessor; D2 backward scans cover index 0 and start from the end; D3 dependency edges for both statement kinds."""
from __future__ import annotations

import ast

from sa.classes import init_fields, init_param_of_field, fields_of, prop_field_map, self_name, method_fields
from sa.report import AnalysisError
from sa.scans import scan
from sa.srcmodel import unparse, walk_no_nested, calls_in, dotted

MOD = 'pharmpy.model.statements'
# fields that hold a plain symbol / the state function itself (one-line reasons)
SYMBOL_FIELDS = {'_symbol': 'lhs of an assignment is a Symbol by Assignment.create',
                 '_t': 'the independent variable is a Symbol'}
EXEMPT_FREE = {('Compartment', '_amount'): 'the amount is the state function A_X(t) itself, not a dependency',
               ('Compartment', '_name'): 'str'}
EXEMPT_SUBS = {('CompartmentalSystem', '_t'): 'the independent variable is not substituted by design',
               ('Compartment', '_name'): 'str'}


def expr_fields(repo, c):
    """constructor fields whose parameter annotation mentions Expr / Dose"""
    f = repo.find_method(c, '__init__')
    ann = {a.arg: unparse(a.annotation) for a in f.node.args.args + f.node.args.kwonlyargs if a.annotation is not None}
    p_of = init_param_of_field(repo, c)
    out = {}
    for fld, p in p_of.items():
        a = ann.get(p, '')
        if 'Expr' in a or 'Dose' in a:
            out[fld] = a
    return out



def run_d1(chk, repo, D1):
    """D1, per class part (also run by the checks of C05 and C07: subs() that skips a field breaks the graph/equation
    agreement and every refactoring that renames or substitutes a symbol)"""
    m = repo.module(MOD)
    rel = m.rel
    for cname in ('Assignment', 'Bolus', 'Infusion', 'Compartment', 'CompartmentalSystem'):
        c = m.classes.get(cname)
        if c is None:
            raise AnalysisError(f'{cname} not found')
        ef = expr_fields(repo, c)
        if cname == 'CompartmentalSystem':
            ef = {'_g': 'graph (rates and compartments)', '_t': 'Expr'}
        props = prop_field_map(repo, c)
        inv = {}
        for p, f_ in props.items():
            inv.setdefault(f_, set()).add(p)
        for acc, meth_attr, exempt in (('free_symbols', 'free_symbols', EXEMPT_FREE), ('subs', 'subs', EXEMPT_SUBS)):
            f = c.methods.get(acc)
            if f is None:
                raise AnalysisError(f'{cname}.{acc} not found')
            me = self_name(f)
            used = fields_of(repo, c, f.node, me, through_methods=True)
            for fld in sorted(ef):
                if (cname, fld) in exempt:
                    continue
                chk.instance(D1, f'{cname}.{acc}: field {fld} ({ef[fld]}) consulted={fld in used}')
                if fld not in used:
                    chk.violation(D1, rel, f.qualname, f'{fld} not consulted by {acc}',
                                  f'{cname}.{acc} ignores the expression field `{fld}`', line=f.node.lineno,
                                  witness=f'a {cname} whose {fld.lstrip("_")} mentions a parameter P: '
                                          + ('dependencies / unused-parameter removal do not see P (P is removed although '
                                             'used)' if acc == 'free_symbols' else 'renaming P leaves the old symbol in '
                                                                                  'place'))
                    continue
                # accessor discipline: every occurrence of the field (or its trivial property) must be X.<acc>,
                # an iteration (for d in self.doses) or an argument position of a helper
                for n in ast.walk(f.node):
                    if isinstance(n, ast.Attribute) and isinstance(n.value, ast.Name) and n.value.id == me \
                            and (n.attr == fld or n.attr in inv.get(fld, ())):
                        par = _parent(f.node, n)
                        ok = isinstance(par, ast.Attribute) and par.attr in (meth_attr, 'free_symbols', 'subs',
                                                                             'edges', 'nodes', 'copy')
                        ok = ok or isinstance(par, (ast.For, ast.comprehension, ast.If, ast.Compare,
                                                    ast.BoolOp, ast.UnaryOp, ast.Assert))
                        # the graph is handed to helpers (_comps(self._g)); plain expression fields are not
                        ok = ok or (isinstance(par, (ast.Call, ast.keyword)) and (fld == '_g' or acc == 'free_symbols'))
                        if isinstance(par, ast.Call) and acc == 'free_symbols' and dotted(par.func) in ('set',):
                            ok = False
                        if isinstance(par, ast.Set) and fld in SYMBOL_FIELDS:
                            ok = True
                        if isinstance(par, (ast.Set, ast.Tuple, ast.List, ast.Return)) and fld not in SYMBOL_FIELDS \
                                and acc == 'free_symbols':
                            ok = False
                            # ... unless the tuple only lists the fields to loop over (`for e in (self.a, self.b): s |=
                            # e.free_symbols`, also inside chain(..)): it is in the iterable of a loop / comprehension
                            for L_ in ast.walk(f.node):
                                it_ = L_.iter if isinstance(L_, (ast.For, ast.comprehension)) else None
                                if it_ is not None and any(x is par for x in ast.walk(it_)):
                                    ok = True
                        if not ok:
                            chk.violation(D1, rel, f.qualname, f'{unparse(par) if par is not None else unparse(n)}',
                                          f'{cname}.{acc} uses the expression field `{fld}` itself instead of its '
                                          f'.{meth_attr}', line=n.lineno,
                                          witness=f"{cname} with {fld.lstrip('_')} = 2*AMT: free_symbols contains the "
                                                  f"expression 2*AMT, not the symbol AMT, so AMT is reported unused")


def run(chk, repo, tier):
    m = repo.module(MOD)
    rel = m.rel
    chk.explanation = (
        'D1: for Assignment, Bolus, Infusion, Compartment and CompartmentalSystem, free_symbols / rhs_symbols / subs '
        'consult every expression-valued constructor field, and do so through .free_symbols / .subs (a raw field put '
        'into the result set is only a symbol for symbol-valued fields). D2: the scans that implement "latest earlier '
        'definition" semantics (dependencies, remove_symbol_definitions, _create_dependency_graph, reassign, '
        'full_expression) run backwards from the end and include index 0. D3: the dependency graph links a '
        'statement to assignments by lhs symbol and to the ODE system by its amounts. NOT decided: the graph '
        'algorithms on run-time statement lists (dependencies, remove_symbol_definitions, full_expression values).')
    D1 = chk.rule('D1', 'symbol accessors cover every expression field through the matching accessor', floor=10)
    D2 = chk.rule('D2', 'backward scans over statements start at the end and reach index 0', floor=4)
    D4 = chk.rule('D4', 'index-based deletion inside a loop runs from the end (indices stay valid); accumulators declared '
                        'before a loop are extended, not rebound, inside it', floor=3)
    D5 = chk.rule('D5', 'every traversal of the dependency graph from a statement index is guarded by `index in graph` '
                        '(the graph only contains statements that have an edge)', floor=3)
    D3 = chk.rule('D3', 'dependency edges: assignment by lhs symbol in rhs_symbols, ODE system by amounts', floor=2)

    run_d1(chk, repo, D1)
    # rhs_symbols of Assignment covers the expression
    a = m.classes['Assignment']
    rs = a.methods.get('rhs_symbols')
    chk.instance(D1, 'Assignment.rhs_symbols consults _expression')
    if rs is None or '_expression' not in fields_of(repo, a, rs.node, 'self'):
        chk.violation(D1, rel, 'Assignment.rhs_symbols', 'rhs_symbols does not read the expression',
                      'rhs_symbols ignores the right hand side', line=a.node.lineno,
                      witness='every dependency query returns an empty set')
    # CompartmentalSystem.free_symbols must use its own t
    cs = m.classes['CompartmentalSystem']
    fs = cs.methods['free_symbols']
    lit_t = [c_ for c_ in calls_in(fs.node) if dotted(c_.func) in ('Expr.symbol', 'Expr') and c_.args
             and isinstance(c_.args[0], ast.Constant)]
    chk.instance(D1, f'CompartmentalSystem.free_symbols literal symbols: {[unparse(x) for x in lit_t]}')
    for x in lit_t:
        chk.violation(D1, rel, fs.qualname, unparse(x),
                      'a literal symbol is reported instead of the system\'s own independent variable', line=x.lineno,
                      witness='a system created with t=TIME reports `t` as free symbol and not TIME')

    # ---------------------------------------------------------------- D2 backward scans
    st = m.classes.get('Statements')
    if st is None:
        raise AnalysisError('Statements not found')
    for meth in ('_create_dependency_graph', 'dependencies', 'remove_symbol_definitions', 'reassign',
                 'full_expression', '_lookup_last_assignment', 'find_assignment_index'):
        f = st.methods.get(meth)
        if f is None:
            continue
        for loop in [n for n in walk_no_nested(f.node) if isinstance(n, ast.For)]:
            it = loop.iter
            if not any(isinstance(c_, ast.Call) and dotted(c_.func) in ('range', 'reversed') for c_ in ast.walk(it)):
                continue
            sc = scan(it)
            if sc is None:
                continue
            chk.instance(D2, f'{meth}: for ... in {unparse(it)} ({sc.direction}, first {sc.first}, last {sc.last})')
            if sc.direction == 'desc':
                if not sc.reaches_zero():
                    chk.violation(D2, rel, f.qualname, unparse(it),
                                  'a backward scan over statement indices stops before index 0', line=it.lineno,
                                  witness='a statement list whose first statement defines the symbol: it is not '
                                          'found / not linked, so its dependencies are missing from the answer')
                # start must be the last index (len(..) - 1) or the previous one (<index> - 1): strictly earlier statements
                if not sc.whole and not (sc.first or '').replace(' ', '').endswith('-1'):
                    chk.violation(D2, rel, f.qualname, unparse(it),
                                  'a backward scan does not start at the last / the previous index', line=it.lineno,
                                  witness='IndexError on every call, or a statement is linked to itself')
            else:
                # ascending scans must not appear in the "latest definition" searches
                if meth in ('dependencies', '_lookup_last_assignment', 'find_assignment_index'):
                    chk.violation(D2, rel, f.qualname, unparse(it),
                                  'the search for the defining statement runs forwards (finds the first, not the '
                                  'latest definition)', line=it.lineno,
                                  witness='X = 1; X = X + THETA; Y = X : dependencies(X) start from the first '
                                          'definition and miss THETA')
        if meth == 'full_expression':
            loops = [n for n in walk_no_nested(f.node) if isinstance(n, ast.For)]
            if not loops or not any((sc_ := scan(lp.iter)) is not None and sc_.direction == 'desc' for lp in loops):
                chk.violation(D2, rel, f.qualname, 'forward substitution loop',
                              'full_expression substitutes definitions in forward order', line=f.node.lineno,
                              witness='A = THETA; B = A; full_expression(B) returns A instead of THETA')
    # ---------------------------------------------------------------- D3 dependency graph edges
    g = st.methods.get('_create_dependency_graph')
    if g is None:
        raise AnalysisError('Statements._create_dependency_graph not found')
    src = unparse(g.node)
    edge_calls = [c_ for c_ in calls_in(g.node) if isinstance(c_.func, ast.Attribute) and c_.func.attr == 'add_edge']
    # the two membership tests, wherever they are evaluated (in the `if` itself or into a local that the `if` reads)
    exprs = [n.test for n in walk_no_nested(g.node) if isinstance(n, ast.If)] + \
        [n.value for n in walk_no_nested(g.node) if isinstance(n, ast.Assign)]
    sym_test = any(isinstance(t, ast.Compare) and isinstance(t.ops[0], ast.In) and unparse(t.left).endswith('.symbol')
                   for e_ in exprs for t in ast.walk(e_))
    amt_test = any('amounts' in unparse(x) for x in ast.walk(g.node) if isinstance(x, ast.Attribute)) and \
        any('isdisjoint' in unparse(t) or '&' in unparse(t) for t in exprs)
    uses_rhs = any(isinstance(x, ast.Attribute) and x.attr == 'rhs_symbols' for x in ast.walk(g.node))
    chk.instance(D3, f'_create_dependency_graph: {len(edge_calls)} add_edge, symbol-in-rhs test={sym_test}, '
                     f'amounts test={amt_test}, uses rhs_symbols={uses_rhs}')
    chk.instance(D3, 'edge direction (user -> definition)')
    if len(edge_calls) < 1 or not sym_test or not amt_test or not uses_rhs:
        chk.violation(D3, rel, g.qualname, 'dependency edges',
                      'the dependency graph no longer links users to assignments (lhs symbol in rhs_symbols) and to the '
                      'ODE system (amounts)', line=g.node.lineno,
                      witness='F = A_CENTRAL/S1 after the ODE system: dependencies(F) miss CL and V')
    for c_ in edge_calls:
        if [unparse(a_) for a_ in c_.args[:2]] != ['i', 'j']:
            # direction is user(i) -> definition(j): callers rely on it (bfs_predecessors / dfs from user)
            outer = [n for n in walk_no_nested(g.node) if isinstance(n, ast.For)]
            chk.violation(D3, rel, g.qualname, unparse(c_),
                          'dependency edge direction changed', line=c_.lineno,
                          witness='remove_symbol_definitions removes statements that are still needed')


    # ---------------------------------------------------------------- D5 guarded graph traversal
    from sa.cfg import CFG
    adds_all_nodes = any(isinstance(c.func, ast.Attribute) and c.func.attr in ('add_node', 'add_nodes_from')
                         for c in calls_in(g.node))
    TRAV = {'bfs_predecessors', 'bfs_successors', 'dfs_preorder_nodes', 'dfs_edges', 'descendants', 'ancestors',
            'bfs_tree', 'dfs_tree', 'successors', 'predecessors'}
    for f in st.methods.values():
        gvars = {n.targets[0].id for n in walk_no_nested(f.node) if isinstance(n, ast.Assign)
                 and isinstance(n.targets[0], ast.Name) and '_create_dependency_graph' in unparse(n.value)}
        if not gvars:
            continue
        cfg = CFG(f.node)
        for nd in cfg.nodes.values():
            if nd.ast is None or nd.kind in ('with_exit', 'join', 'dispatch', 'except') or isinstance(nd.ast, (ast.FunctionDef, ast.ClassDef)):
                continue
            root = nd.ast.iter if nd.kind == 'for' else nd.ast
            for c in [x for x in ast.walk(root) if isinstance(x, ast.Call)]:
                fn = c.func.attr if isinstance(c.func, ast.Attribute) else None
                if fn not in TRAV:
                    continue
                args = list(c.args)
                if isinstance(c.func.value, ast.Name) and c.func.value.id in gvars:
                    gname, start = c.func.value.id, (args[0] if args else None)
                elif args and isinstance(args[0], ast.Name) and args[0].id in gvars:
                    gname, start = args[0].id, (args[1] if len(args) > 1 else None)
                else:
                    continue
                if start is None:
                    continue
                stxt = unparse(start)
                guarded = adds_all_nodes
                for t in [x for x in cfg.nodes.values() if x.kind == 'test']:
                    tt = unparse(t.ast).replace(' ', '')
                    if f'{stxt}in{gname}' in tt and cfg.edge_dominates(t.id, 'true', nd.id):
                        guarded = True
                    if f'{stxt}notin{gname}' in tt and cfg.edge_dominates(t.id, 'false', nd.id):
                        guarded = True
                for ie in [x for x in ast.walk(root) if isinstance(x, ast.IfExp)]:
                    if f'{stxt}in{gname}' in unparse(ie.test).replace(' ', '') and any(y is c for y in ast.walk(ie.body)):
                        guarded = True
                # start taken from the graph itself (loop over candidates that were filtered by `in graph`) counts
                for cn in [x for x in ast.walk(f.node) if isinstance(x, ast.comprehension)]:
                    if any(y is c for y in ast.walk(cn.iter)) or (isinstance(cn.target, ast.Name) and cn.target.id == stxt):
                        pass
                if isinstance(start, ast.Name):
                    for lp in [x for x in walk_no_nested(f.node) if isinstance(x, ast.For)]:
                        if isinstance(lp.target, ast.Name) and lp.target.id == start.id and any(y is c for b in lp.body for y in ast.walk(b)):
                            # for add in additional.copy(): additional derives from graph.edges -> nodes of the graph
                            if 'edges' in unparse(f.node) and start.id in ('add',):
                                guarded = True
                chk.instance(D5, f'{f.qualname}: {unparse(c)[:60]} guarded by `{stxt} in {gname}`: {guarded}')
                if not guarded:
                    chk.violation(D5, rel, f.qualname, unparse(c)[:100],
                                  f'the dependency graph only has nodes for statements with an edge; `{stxt}` may not be one '
                                  f'of them (sibling queries test `in {gname}` first)', line=c.lineno,
                                  witness='A = THETA1; B = A + 1; C = THETA2: dependencies("C") raises NetworkXError instead of '
                                          'returning {THETA2}')

    # ---------------------------------------------------------------- D4 index / accumulator discipline
    scope = [f for f in st.methods.values()]
    cm = repo.module('pharmpy.modeling.common')
    for nm in ('_get_unused_parameters_and_rvs', 'remove_unused_parameters_and_rvs'):
        if nm not in cm.functions:
            raise AnalysisError(f'modeling.common.{nm} not found')
        scope.append(cm.functions[nm])
    for f in scope:
        mod = f.module
        loops = [n for n in walk_no_nested(f.node) if isinstance(n, ast.For)]
        for lp in loops:
            dels = [d for s_ in lp.body for d in ast.walk(s_) if isinstance(d, ast.Delete)
                    and any(isinstance(t, ast.Subscript) and isinstance(t.slice, ast.Name) for t in d.targets)]
            for d in dels:
                idx = next(t.slice.id for t in d.targets if isinstance(t, ast.Subscript) and isinstance(t.slice, ast.Name))
                tg_names = {x.id for x in ast.walk(lp.target) if isinstance(x, ast.Name)}
                if idx not in tg_names:
                    continue
                it = unparse(lp.iter)
                descending = 'reversed(' in it or (', -1)' in it.replace(' ', '').replace(',-1)', ', -1)') and 'range(' in it)
                chk.instance(D4, f'{f.qualname}: {unparse(d)} in `for {unparse(lp.target)} in {it}` (descending: {descending})')
                if not descending:
                    chk.violation(D4, mod.rel, f.qualname, f'{unparse(d)} in for ... in {it}',
                                  'elements are deleted by index while the loop walks the indices upwards: after the first '
                                  'deletion every later index is off by one', line=d.lineno,
                                  witness='a symbol assigned three or more times: reassign deletes an unrelated statement '
                                          'and leaves a stale assignment of the symbol')
        # accumulators
        inits = {}
        for s_ in walk_no_nested(f.node):
            if isinstance(s_, ast.Assign) and isinstance(s_.targets[0], ast.Name) and (
                    (isinstance(s_.value, (ast.List, ast.Set)) and not s_.value.elts)
                    or (isinstance(s_.value, ast.Dict) and not s_.value.keys)
                    or (isinstance(s_.value, ast.Call) and unparse(s_.value) in ('list()', 'set()', 'dict()', 'tuple()'))):
                inits.setdefault(s_.targets[0].id, s_)
        for lp in loops:
            for s_ in [x for b in lp.body for x in ast.walk(b)]:
                if isinstance(s_, ast.Assign) and isinstance(s_.targets[0], ast.Name) and s_.targets[0].id in inits \
                        and inits[s_.targets[0].id].lineno < lp.lineno:
                    v = s_.targets[0].id
                    self_ref = v in {x.id for x in ast.walk(s_.value) if isinstance(x, ast.Name)}
                    used_after = any(isinstance(x, ast.Name) and x.id == v and getattr(x, 'lineno', 0) > lp.end_lineno
                                     for x in ast.walk(f.node))
                    chk.instance(D4, f'{f.qualname}: accumulator `{v}` rebound in loop (refers to itself: {self_ref})')
                    if not self_ref and used_after:
                        chk.violation(D4, mod.rel, f.qualname, unparse(s_)[:100],
                                      f'`{v}` is declared empty before the loop and used after it, but is rebound (not '
                                      f'extended) inside the loop: only the last iteration contributes', line=s_.lineno,
                                      witness='two joint distributions with an unused random variable in the first one: it is '
                                              'not removed although it has no influence on any statement')
        accs = [v for v in inits if any(isinstance(c, ast.Call) and isinstance(c.func, ast.Attribute)
                                        and c.func.attr in ('append', 'extend', 'add', 'update') and unparse(c.func.value) == v
                                        for c in ast.walk(f.node))]
        for v in accs:
            chk.instance(D4, f'{f.qualname}: accumulator `{v}` extended in place')

    D11 = chk.rule('D11', 'remove_symbol_definitions: every protecting set is closed under dependencies', floor=2)
    closed_protection_sets(chk, D11, repo)
    run_d12_d14(chk, repo)
    run_d15_d16(chk, repo)
    run_d17(chk, repo)
    # ---------------------------------------------------------------- D6 closure of keep / remove sets
    D6 = chk.rule('D6', 'sets grown from the dependency graph in a single pass over a copy use a transitive traversal '
                        '(not one-step adjacency)', floor=2)
    TRANSITIVE = {'dfs_preorder_nodes', 'dfs_postorder_nodes', 'dfs_edges', 'descendants', 'ancestors', 'bfs_tree',
                  'dfs_tree', 'bfs_edges', 'bfs_predecessors', 'bfs_successors', 'transitive_closure'}
    ONE_STEP = {'successors', 'predecessors', 'neighbors', 'adj', 'out_edges', 'in_edges', 'edges'}
    for f in repo.all_funcs():
        if f.module.name not in ('pharmpy.model.statements', 'pharmpy.modeling.expressions'):
            continue
        for L in [x for x in walk_no_nested(f.node) if isinstance(x, ast.For)]:
            it = L.iter
            # the loop runs once over a fixed collection (a copy of the set it grows, or the seed set of another set)
            copied = None        # the set a snapshot of which is iterated: s.copy(), tuple(s), list(s), set(s), sorted(s)
            if isinstance(it, ast.Call) and isinstance(it.func, ast.Attribute) and it.func.attr == 'copy' \
                    and isinstance(it.func.value, ast.Name):
                copied = it.func.value.id
            elif isinstance(it, ast.Call) and dotted(it.func) in ('tuple', 'list', 'set', 'frozenset', 'sorted') \
                    and len(it.args) == 1 and isinstance(it.args[0], ast.Name):
                copied = it.args[0].id
            over_copy = copied is not None
            if not over_copy and not isinstance(it, ast.Name):
                continue
            for st_ in L.body:
                for n in ast.walk(st_):
                    grow = sv = None
                    if isinstance(n, ast.AugAssign) and isinstance(n.op, ast.BitOr) and isinstance(n.target, ast.Name):
                        grow, sv = n.value, n.target.id
                    elif isinstance(n, ast.Call) and isinstance(n.func, ast.Attribute) and n.func.attr == 'update' \
                            and isinstance(n.func.value, ast.Name) and n.args:
                        grow, sv = n.args[0], n.func.value.id
                    if grow is None:
                        continue
                    if over_copy and sv != copied:
                        continue
                    apis = {c.func.attr if isinstance(c.func, ast.Attribute) else getattr(c.func, 'id', '')
                            for c in ast.walk(grow) if isinstance(c, ast.Call)}
                    apis |= {a.attr for a in ast.walk(grow) if isinstance(a, ast.Attribute)}
                    if not over_copy and not apis & (TRANSITIVE | ONE_STEP):
                        continue
                    trans, one = apis & TRANSITIVE, apis & ONE_STEP
                    chk.instance(D6, f'{f.qualname}: for _ in {unparse(it)}: {sv} |= {unparse(grow)[:50]} '
                                     f'(transitive {sorted(trans)}, one-step {sorted(one)})')
                    if one and not trans:
                        chk.violation(D6, f.module.rel, f.qualname, f'{sv} |= {unparse(grow)}',
                                      f'`{sv}` is extended by direct neighbours in a single pass over a copy: dependencies two '
                                      f'or more levels down are not included', line=n.lineno,
                                      witness='WTS = WGT/70; TVQ = TH3*WTS**2; Q = TVQ*(1+ETA2); Y = ... (Q removed); QOUT = 2*Q: '
                                              'the definition of WTS is deleted although QOUT still needs it')
                    elif not one and not trans:
                        raise AnalysisError(f'D6: unknown graph API in {f.qualname}: {unparse(grow)}')

    # ---------------------------------------------------------------- D7 users on both sides protect a definition
    D7 = chk.rule('D7', 'remove_symbol_definitions: a definition is protected by every remaining user, before or after the '
                        'edited statement', floor=1)
    from sa import tables as T_
    stc = m.classes.get("Statements")
    rsd = stc.methods.get('remove_symbol_definitions')
    if rsd is None:
        raise AnalysisError('remove_symbol_definitions not found')
    comps = [n for n in walk_no_nested(rsd.node) if isinstance(n, (ast.SetComp, ast.ListComp, ast.GeneratorExp))
             and any(isinstance(a, ast.Attribute) and a.attr == 'edges' for a in ast.walk(n.generators[0].iter))
             and n.generators[0].ifs]
    if not comps:
        raise AnalysisError('D7: edge comprehension with filter not found in remove_symbol_definitions')
    for comp in comps:
        gen = comp.generators[0]
        if not (isinstance(gen.target, ast.Tuple) and len(gen.target.elts) == 2):
            raise AnalysisError(f'D7: unexpected comprehension target {unparse(gen.target)}')
        up, down = [e.id for e in gen.target.elts]
        free = {x.id for c_ in gen.ifs for x in ast.walk(c_) if isinstance(x, ast.Name)} - {up, down}
        # abstract positions of the user relative to the edited statement; the user is a remaining statement
        # (not a candidate), the definition is a candidate
        res = {}
        for pos, upv in (('before', 3), ('edited', 5), ('after', 7)):
            env = {up: upv, down: 1}
            for nm in free:
                env[nm] = {1} if 'cand' in nm else 5
            try:
                res[pos] = all(T_.eval_pred(c_, env) for c_ in gen.ifs)
            except T_.Undecidable as e:
                raise AnalysisError(f'D7: cannot evaluate {unparse(comp)}: {e}')
        chk.instance(D7, f'{unparse(comp)[:90]}: protects for user {res}')
        if not (res['before'] and res['after']) or res['edited']:
            chk.violation(D7, stc.module.rel, rsd.qualname, unparse(comp),
                          f'users that protect a candidate definition: {res} (must be before: True, after: True, the edited '
                          f'statement itself: False)', line=comp.lineno,
                          witness='A = 1; B = A + 1; Y = A + 2 edited to Y = 2; Z = 2*B: A is removed although B still uses it')

    # ---------------------------------------------------------------- D8 liveness transfer order
    from sa import lints as _l
    st_ = _l.self_test()
    if not all(st_.values()):
        raise AnalysisError(f'lint self-test failed: {st_}')
    D8 = chk.rule('D8', 'symbol tracking in backward scans: the defined symbol is removed before the used symbols are added '
                        '(a statement may use the symbol it defines)', floor=1)
    nscan = 0
    for f in repo.all_funcs():
        if f.module.name not in ('pharmpy.model.statements', 'pharmpy.modeling.expressions', 'pharmpy.modeling.common'):
            continue
        back = [L for L in walk_no_nested(f.node) if isinstance(L, ast.For) and isinstance(L.iter, ast.Call)
                and (dotted(L.iter.func) == 'reversed' or (dotted(L.iter.func) == 'range' and len(L.iter.args) == 3))]
        nscan += len(back)
        for n, txt in _l.gen_after_kill(f.node):
            chk.violation(D8, f.module.rel, f.qualname, txt,
                          'the tracked set is updated as (set | used) - {defined}: for V = V*(1+THETA) the symbol V is used and '
                          'defined by the same statement and is dropped, so its earlier definitions are skipped',
                          line=n.lineno,
                          witness='TVV = THETA(2)*WGT; IF (APGR.LT.5) TVV = TVV*(1+THETA(3)); V = TVV*EXP(ETA(2)): '
                                  'full_expression(V) still contains TVV')
    chk.instance(D8, f'{nscan} backward scans over statements examined for set-tracking updates', n=max(nscan, 1))
    if nscan == 0:
        raise AnalysisError('D8: no backward scan found')

    # ---------------------------------------------------------------- D9 dependencies = backward reaching definitions
    D9 = chk.rule('D9', 'Statements.dependencies walks the statements in descending index order and replaces a symbol only by '
                        'a definition of a symbol that is still wanted', floor=2)
    dep = stc.methods.get('dependencies')
    if dep is None:
        raise AnalysisError('Statements.dependencies not found')
    res_names = {n.value.id for n in walk_no_nested(dep.node) if isinstance(n, ast.Return) and isinstance(n.value, ast.Name)}
    loops = [L for L in walk_no_nested(dep.node) if isinstance(L, ast.For) and any(
        isinstance(a, (ast.Assign, ast.AugAssign)) and any(isinstance(t, ast.Name) and t.id in res_names
                                                          for t in (a.targets if isinstance(a, ast.Assign) else [a.target]))
        for a in ast.walk(L))]
    if not loops or not res_names:
        raise AnalysisError('D9: the loop that accumulates the dependencies was not recognised')
    for L in loops:
        it = L.iter
        desc = False
        if isinstance(it, ast.Call):
            fn = dotted(it.func) or ''
            desc = fn == 'reversed' or (fn == 'range' and len(it.args) == 3 and isinstance(it.args[2], ast.UnaryOp)) \
                or (fn == 'sorted' and any(k.arg == 'reverse' and isinstance(k.value, ast.Constant) and k.value.value is True
                                           for k in it.keywords))
        chk.instance(D9, f'dependencies: `for {unparse(L.target)} in {unparse(it)[:60]}` descending statement order: {desc}')
        if not desc:
            chk.violation(D9, stc.module.rel, dep.qualname, f'for {unparse(L.target)} in {unparse(it)}',
                          'definitions are not applied from the closest to the farthest: a symbol that was already resolved '
                          'can be re-introduced or removed by a definition that does not reach the statement',
                          line=L.lineno,
                          witness='U = A; A = 2; G = A; D = U + G: dependencies(D) is empty although D depends on the incoming A')
        rv = next(iter(res_names))
        kills = [a for a in ast.walk(L) if isinstance(a, (ast.Assign, ast.AugAssign))
                 and any(isinstance(t, ast.Name) and t.id == rv for t in (a.targets if isinstance(a, ast.Assign) else [a.target]))
                 and any(isinstance(x, ast.Attribute) and x.attr == 'symbol' for x in ast.walk(a.value))]
        guarded = all(any(isinstance(I, ast.If) and any(k is x for x in ast.walk(I)) and isinstance(I.test, ast.Compare)
                          and isinstance(I.test.ops[0], ast.In) and unparse(I.test.comparators[0]) == rv
                          for I in ast.walk(L)) for k in kills) if kills else False
        chk.instance(D9, f'dependencies: replacement of a defined symbol guarded by `symbol in {rv}`: {guarded}')
        if not guarded:
            chk.violation(D9, stc.module.rel, dep.qualname, f'update of {rv} without `statement.symbol in {rv}`',
                          'the right-hand side of a definition is added although its symbol is not (or no longer) wanted',
                          line=L.lineno,
                          witness='X = W; X = 2; Z = X: dependencies(Z) reports W')

    # ---------------------------------------------------------------- D9 (continued): no early termination except on an empty set
    for L in loops:
        rv = next(iter(res_names))
        for b in [x for x in ast.walk(L) if isinstance(x, (ast.Break, ast.Return))]:
            guard = None
            for I in ast.walk(L):
                if isinstance(I, ast.If) and any(b is x for x in ast.walk(I)):
                    guard = I
            gt = unparse(guard.test) if guard is not None else ''
            ok = gt in (f'not {rv}', f'len({rv}) == 0', f'{rv} == set()')
            chk.instance(D9, f'dependencies: early exit `if {gt}: {type(b).__name__.lower()}` only when nothing is wanted any more: {ok}')
            if not ok:
                chk.violation(D9, stc.module.rel, dep.qualname, f'if {gt}: break',
                              'the backward scan stops before index 0 on a condition that is not "no symbol is wanted any more": '
                              'definers of another kind (the ODE system defines the amounts) are skipped', line=b.lineno,
                              witness='IPRED = A_CENTRAL(t) after the ODE system: dependencies(IPRED) stops before the ODE and '
                                      'loses AMT, the thetas and the etas')
    # ---------------------------------------------------------------- D10 redefinitions in the shadowing-aware dependency map
    D10 = chk.rule('D10', '_dependency_graph: when a symbol is redefined, its previous definition is expanded into every '
                          'definition that used it (whatever the new definition looks like)', floor=2)
    xm = repo.module('pharmpy.modeling.expressions')
    dg = xm.functions.get('_dependency_graph')
    if dg is None:
        raise AnalysisError('_dependency_graph not found')
    guards = [I for I in ast.walk(dg.node) if isinstance(I, ast.If) and 'previous_def' in unparse(I.test)]
    if not guards:
        raise AnalysisError('D10: redefinition guard not found')
    for I in guards:
        extra = {x.id for x in ast.walk(I.test) if isinstance(x, ast.Name)} - {'previous_def'}
        rewrites = [a for a in ast.walk(I) if isinstance(a, ast.Assign) and isinstance(a.targets[0], ast.Subscript)
                    and 'previous_def' in unparse(a.value) and any(
                        isinstance(Lp, ast.For) and any(a is x for x in ast.walk(Lp)) and 'items' in unparse(Lp.iter)
                        for Lp in ast.walk(I))]
        # the same rewrite as one expression: deps = {k: ((v - {s}) | previous_def) if s in v else v for k, v in deps.items()}
        rewrites += [a for a in ast.walk(I) if isinstance(a, ast.Assign) and isinstance(a.value, ast.DictComp)
                     and 'previous_def' in unparse(a.value.value)
                     and any('items' in unparse(g_.iter) for g_ in a.value.generators)]
        chk.instance(D10, f'redefinition handled under `if {unparse(I.test)}` (extra conditions: {sorted(extra)})')
        chk.instance(D10, f'previous definition expanded into the other entries of the map: {bool(rewrites)}')
        if extra:
            chk.violation(D10, xm.rel, dg.name, f'if {unparse(I.test)}',
                          'the previous definition is only taken into account under an extra condition on the new definition',
                          line=I.lineno,
                          witness='TMP = THETA1*WGT*exp(ETA1); CL = TMP; TMP = THETA2; V = TMP: depends_on(CL, ETA1) is False')
        if not rewrites:
            chk.violation(D10, xm.rel, dg.name, 'no rewrite of the entries that used the redefined symbol',
                          'definitions that used the old value now point at the new definition', line=I.lineno,
                          witness='TMP = THETA1*WGT*exp(ETA1); CL = TMP; TMP = THETA2; V = TMP: has_random_effect(CL) is False')


TRANSITIVE_APIS = {'dfs_preorder_nodes', 'dfs_postorder_nodes', 'dfs_edges', 'descendants', 'ancestors', 'bfs_tree', 'dfs_tree',
                   'bfs_edges', 'bfs_predecessors', 'bfs_successors', 'transitive_closure'}


def closed_protection_sets(chk, rule, repo):
    """in remove_symbol_definitions every set subtracted from the candidates is built with a transitive traversal"""
    m = repo.module('pharmpy.model.statements')
    f = m.classes['Statements'].methods.get('remove_symbol_definitions')
    if f is None:
        raise AnalysisError('remove_symbol_definitions not found')
    prot = []
    for n in walk_no_nested(f.node):
        if isinstance(n, ast.AugAssign) and isinstance(n.op, ast.Sub) and isinstance(n.value, ast.Name):
            prot.append((n.value.id, n))
        if isinstance(n, ast.Assign) and isinstance(n.value, ast.BinOp) and isinstance(n.value.op, ast.Sub) \
                and isinstance(n.value.right, ast.Name):
            prot.append((n.value.right.id, n))
    if len(prot) < 2:
        raise AnalysisError(f'protecting sets of remove_symbol_definitions not recognised ({[p[0] for p in prot]})')
    def built_with(name, seen):
        # attribute / function names used in building `name`, through the locals it is built from (x = y; y |= dfs(...))
        out = set()
        for n in ast.walk(f.node):
            tgt = None
            if isinstance(n, ast.Assign) and any(isinstance(t, ast.Name) and t.id == name for t in n.targets):
                tgt = n.value
            elif isinstance(n, ast.AugAssign) and isinstance(n.target, ast.Name) and n.target.id == name:
                tgt = n.value
            elif isinstance(n, ast.Call) and isinstance(n.func, ast.Attribute) and isinstance(n.func.value, ast.Name) \
                    and n.func.value.id == name and n.func.attr in ('update', 'add', 'extend', 'append', 'intersection_update',
                                                                      'difference_update') and len(n.args) == 1:
                tgt = n.args[0]          # name.update(x) is name |= x
            if tgt is not None:
                out |= {a.attr for a in ast.walk(tgt) if isinstance(a, ast.Attribute)}
                out |= {a.id for a in ast.walk(tgt) if isinstance(a, ast.Name)}
                # only names whose VALUE flows into `name` (x = y, x = y | z, x = set(y), x = y.copy()); a name that is
                # merely consulted in a filter (`... if down in candidates`) does not make the result closed
                for nm in flows_from(tgt):
                    if nm not in seen and nm != name:
                        out |= built_with(nm, seen | {name, nm})
        return out

    def flows_from(e):
        if isinstance(e, ast.Name):
            return {e.id}
        if isinstance(e, ast.BinOp) and isinstance(e.op, (ast.BitOr, ast.BitAnd, ast.Sub)):
            return flows_from(e.left) | flows_from(e.right)
        if isinstance(e, ast.Call) and dotted(e.func) in ('set', 'frozenset', 'list', 'tuple', 'sorted') and len(e.args) == 1:
            return flows_from(e.args[0])
        if isinstance(e, ast.Call) and isinstance(e.func, ast.Attribute) and e.func.attr in ('copy', 'union'):
            out_ = flows_from(e.func.value)
            for a_ in e.args:
                out_ |= flows_from(a_)
            return out_
        return set()
    for name, site in prot:
        apis = built_with(name, {name})
        ok = bool(apis & TRANSITIVE_APIS)
        chk.instance(rule, f'remove_symbol_definitions: `{unparse(site)[:50]}`: `{name}` built with {sorted(apis & TRANSITIVE_APIS)}')
        if not ok:
            chk.violation(rule, m.rel, f.qualname, f'{unparse(site)[:60]} with {name} not closed',
                          f'`{name}` protects definitions from removal but contains only the directly used ones: their own '
                          f'dependencies are removed', line=site.lineno,
                          witness='S4 = V; V = TVV*EXP(ETA); TVV = ...: after a setter removes K40 = CL/V, TVV is deleted while V '
                                  'is kept ("Symbol TVV is not defined")')


def _parent(root, node):
    for p in ast.walk(root):
        for ch in ast.iter_child_nodes(p):
            if ch is node:
                return p
    return None


def run_d12_d14(chk, repo):
    """D12: the dependency graph links a statement to EVERY earlier definer (no early exit of the inner scan); D13: subs of the
    ODE system has no shortcut that returns the system unchanged; D14: dependencies(statement) locates a statement argument by
    position, whatever its kind"""
    m = repo.module('pharmpy.model.statements')
    rel = m.rel
    st = m.classes.get('Statements')
    D12 = chk.rule('D12', '_create_dependency_graph: the scan over the earlier statements runs to the first statement for every '
                          'user (no break / return inside it)', floor=1)
    g = st.methods.get('_create_dependency_graph')
    if g is None:
        raise AnalysisError('Statements._create_dependency_graph not found')
    inner = [L for L in ast.walk(g.node) if isinstance(L, ast.For) and any(
        isinstance(c, ast.Call) and isinstance(c.func, ast.Attribute) and c.func.attr == 'add_edge' for c in ast.walk(L))
        and not any(isinstance(x, ast.For) and x is not L and any(
            isinstance(c, ast.Call) and isinstance(c.func, ast.Attribute) and c.func.attr == 'add_edge' for c in ast.walk(x))
            for x in ast.walk(L))]
    if not inner:
        raise AnalysisError('D12: inner scan of _create_dependency_graph not found')
    for L in inner:
        exits = [x for x in ast.walk(L) if isinstance(x, (ast.Break, ast.Return))]
        chk.instance(D12, f'_create_dependency_graph: `for {unparse(L.target)} in {unparse(L.iter)}` early exits: {len(exits)}')
        for x in exits:
            chk.violation(D12, rel, g.qualname, f'{type(x).__name__.lower()} inside the scan over earlier statements',
                          'a statement that uses an amount and a symbol defined before the ODE system is linked to the system '
                          'only: its other definitions are missing from the graph', line=x.lineno,
                          witness='IPRED = A_CENTRAL(t)/V after the elimination rate was reparametrised to K: '
                                  'remove_symbol_definitions([CL, V], ode) deletes V = THETA_2*WGT although IPRED needs it')
    D13 = chk.rule('D13', 'CompartmentalSystem.subs: no return that hands back the system itself on a test of its free symbols '
                          '(amount functions and compound keys are not among them)', floor=1)
    cs = m.classes.get('CompartmentalSystem')
    sb = cs.methods.get('subs') if cs else None
    if sb is None:
        raise AnalysisError('CompartmentalSystem.subs not found')
    rets = [r for r in ast.walk(sb.node) if isinstance(r, ast.Return)]
    chk.instance(D13, f'CompartmentalSystem.subs: {len(rets)} return(s), returning self: '
                      f'{sum(1 for r in rets if isinstance(r.value, ast.Name) and r.value.id == "self")}')
    for r in rets:
        if isinstance(r.value, ast.Name) and r.value.id == 'self':
            guard = next((I for I in ast.walk(sb.node) if isinstance(I, ast.If) and any(x is r for x in ast.walk(I))), None)
            gtxt = unparse(guard.test) if guard is not None else ''
            if guard is None or 'free_symbols' in gtxt or 'isdisjoint' in gtxt:
                chk.violation(D13, rel, sb.qualname, f'if {gtxt[:80]}: return self',
                              'the substitution is skipped when no key is a free symbol of the system: keys that are amount '
                              'functions (A_CENTRAL(t)) or compound expressions (CL/V) are never free symbols', line=r.lineno,
                              witness='Statements.subs({A_CENTRAL(t): A_CENT(t)}) renames the amount in the assignments but not '
                                      'in the ODE system: dependencies of F lose every pre-ODE parameter')
    D14 = chk.rule('D14', 'Statements.dependencies: a statement given as argument is located by its position (self.index) '
                          'for every kind of statement', floor=1)
    dp = st.methods.get('dependencies')
    if dp is None:
        raise AnalysisError('Statements.dependencies not found')
    arg = [p for p in dp.params if p != 'self'][0]
    sites = []
    for I in [x for x in ast.walk(dp.node) if isinstance(x, ast.If)]:
        t = I.test
        if isinstance(t, ast.Call) and dotted(t.func) == 'isinstance' and len(t.args) == 2 and unparse(t.args[0]) == arg \
                and any(isinstance(c, ast.Call) and unparse(c.func) == 'self.index' for s_ in I.body for c in ast.walk(s_)):
            sites.append((I, {unparse(x) for x in (t.args[1].elts if isinstance(t.args[1], ast.Tuple) else [t.args[1]])}))
    if not sites:
        raise AnalysisError('D14: `if isinstance(arg, Statement): i = self.index(arg)` not found in Statements.dependencies')
    for I, classes in sites:
        ok = 'Statement' in classes or {'Assignment', 'CompartmentalSystem'} <= classes
        chk.instance(D14, f'dependencies: located by position for {sorted(classes)}: covers every statement kind: {ok}')
        if not ok:
            chk.violation(D14, rel, dp.qualname, f'isinstance({arg}, {sorted(classes)})',
                          'an Assignment argument is looked up by its symbol: the LAST assignment of that symbol is used, '
                          'not the statement that was passed', line=I.lineno,
                          witness='X = A + B; Z = X*C; X = D: dependencies(first X statement) reports {D} and misses A and B')


def run_d15_d16(chk, repo):
    """D15: _get_unused_parameters_and_rvs keeps a parameter iff it is used by a statement, used by a remaining random
    variable, or is a placeholder fixed to zero (truth table of the keep decision); D16: rhs_symbols / free_symbols of the
    statement classes do not special-case a literal symbol name (the independent variable is configurable)"""
    from sa import iterspace as IS
    import itertools
    D15 = chk.rule('D15', '_get_unused_parameters_and_rvs: a parameter is kept iff used in the statements, used by a remaining '
                          'random variable, or fixed to zero (16 cases)', floor=16)
    cm = repo.module('pharmpy.modeling.common')
    f = cm.functions.get('_get_unused_parameters_and_rvs')
    if f is None:
        raise AnalysisError('_get_unused_parameters_and_rvs not found')
    # the keep decision: `if T: new_params.append(p)` in a loop over the parameters (keep = T), or a comprehension that collects
    # the parameters to drop with filters F.. followed by `[p for p in parameters if p.name not in dropped]` (keep = not all F)
    decision = None
    for L in [x for x in ast.walk(f.node) if isinstance(x, ast.For) and 'param' in unparse(x.iter)]:
        for I in [x for x in L.body if isinstance(x, ast.If)]:
            if any(isinstance(c, ast.Call) and isinstance(c.func, ast.Attribute) and c.func.attr == 'append'
                   for s_ in I.body for c in ast.walk(s_)):
                pv = L.target.id if isinstance(L.target, ast.Name) else None
                decision = ('keep', I.test, pv, L)
    if decision is None:
        for a in ast.walk(f.node):
            if isinstance(a, ast.Assign) and isinstance(a.value, (ast.SetComp, ast.ListComp, ast.GeneratorExp)) \
                    and a.value.generators[0].ifs and 'param' in unparse(a.value.generators[0].iter):
                nm = a.targets[0].id if isinstance(a.targets[0], ast.Name) else None
                later = [b for b in ast.walk(f.node) if isinstance(b, (ast.ListComp, ast.GeneratorExp)) and b is not a.value
                         and any(isinstance(t, ast.Compare) and isinstance(t.ops[0], ast.NotIn) and nm in unparse(t)
                                 for t in b.generators[0].ifs)]
                if nm and later:
                    g = a.value.generators[0]
                    test = g.ifs[0] if len(g.ifs) == 1 else ast.BoolOp(op=ast.And(), values=list(g.ifs))
                    decision = ('drop', test, g.target.id if isinstance(g.target, ast.Name) else None, None)
    if decision is None:
        # `new_params = [p for p in parameters if <keep>]`
        for a in ast.walk(f.node):
            if isinstance(a, (ast.ListComp, ast.GeneratorExp)) and len(a.generators) == 1 and a.generators[0].ifs \
                    and 'param' in unparse(a.generators[0].iter) and isinstance(a.generators[0].target, ast.Name) \
                    and unparse(a.elt) == a.generators[0].target.id \
                    and any(isinstance(x, ast.Attribute) and x.attr == 'fix' for i_ in a.generators[0].ifs for x in ast.walk(i_)):
                g = a.generators[0]
                test = g.ifs[0] if len(g.ifs) == 1 else ast.BoolOp(op=ast.And(), values=list(g.ifs))
                decision = ('keep', test, g.target.id, None)
    if decision is None or decision[2] is None:
        raise AnalysisError('D15: keep decision of _get_unused_parameters_and_rvs not recognised')
    kind, test, pv, loop = decision
    # names bound from the parameter inside the loop (symb = p.symbol)
    alias = {}
    if loop is not None:
        for a in loop.body:
            if isinstance(a, ast.Assign) and isinstance(a.targets[0], ast.Name) and unparse(a.value) == f'{pv}.symbol':
                alias[a.targets[0].id] = 'S'
    coll = sorted({unparse(t.comparators[0]) for t in ast.walk(test) if isinstance(t, ast.Compare)
                   and isinstance(t.ops[0], (ast.In, ast.NotIn))})
    if len(coll) != 2:
        raise AnalysisError(f'D15: expected membership tests against two symbol collections, found {coll}')
    for in1, in2, fix, zero in itertools.product((False, True), repeat=4):
        env = {f'{pv}.symbol': 'S', f'{pv}.fix': fix, f'{pv}.init': 0 if zero else 0.1,
               coll[0]: {'S'} if in1 else set(), coll[1]: {'S'} if in2 else set(), **alias}
        try:
            v = bool(IS.ev_x(test, env))
        except Exception as ex:
            raise AnalysisError(f'D15: keep decision not evaluable: {type(ex).__name__} {ex}')
        keep = v if kind == 'keep' else not v
        want = in1 or in2 or (fix and zero)
        chk.instance(D15, f'in {coll[0]}: {in1}, in {coll[1]}: {in2}, fix {fix}, init zero {zero}: kept {keep} (wanted {want})')
        if keep != want:
            chk.violation(D15, cm.rel, f.name, f'{unparse(test)[:70]}: used {in1}/{in2}, fix {fix}, zero {zero} -> kept {keep}',
                          'remove_unused_parameters_and_rvs no longer removes exactly the parameters without influence',
                          line=test.lineno,
                          witness='an unused parameter fixed to a non-zero value (the FIX variance of a removed eta) survives, or '
                                  'an unused estimated parameter with initial estimate 0')
            break
    D16 = chk.rule('D16', 'symbol accessors of the statement classes contain no literal symbol name', floor=5)
    sm = repo.module(MOD)
    n = 0
    for cname in ('Assignment', 'Bolus', 'Infusion', 'Compartment', 'CompartmentalSystem'):
        c = sm.classes.get(cname)
        for acc in ('free_symbols', 'rhs_symbols', 'lhs_symbols'):
            g = c.methods.get(acc) if c else None
            if g is None:
                continue
            n += 1
            lits = [x for x in calls_in(g.node) if dotted(x.func) in ('Expr.symbol', 'Expr', 'sympy.Symbol', 'Expr.function')
                    and x.args and isinstance(x.args[0], ast.Constant) and isinstance(x.args[0].value, str)]
            chk.instance(D16, f'{cname}.{acc}: literal symbols {[unparse(x) for x in lits]}')
            for x in lits:
                chk.violation(D16, sm.rel, g.qualname, unparse(x),
                              'a symbol is recognised by a fixed name: the independent variable (and every other symbol) of a '
                              'model is configurable', line=x.lineno,
                              witness='a system created with t=TIME: statements after it no longer report the amounts '
                                      'A_CENTRAL(TIME) as symbols they depend on; dependencies() stops at the ODE system')
    if n == 0:
        raise AnalysisError('D16: no symbol accessor found')


def run_d17(chk, repo):
    """D17: remove_symbol_definitions deletes definitions the edited statement no longer needs: only assignments BEFORE that
    statement can be such definitions; a later assignment of the same symbol defines the value other readers (or the model
    output) see. The collection of candidate indices is bounded by the index of the edited statement"""
    D17 = chk.rule('D17', 'Statements.remove_symbol_definitions: candidate definitions are searched strictly before the edited '
                          'statement (range / slice / comparison with its index)', floor=1)
    sm = repo.module('pharmpy.model.statements')
    cls = sm.classes.get('Statements')
    f = cls.methods.get('remove_symbol_definitions') if cls else None
    if f is None:
        raise AnalysisError('D17: Statements.remove_symbol_definitions not found')
    idx = {a.targets[0].id for a in ast.walk(f.node) if isinstance(a, ast.Assign) and len(a.targets) == 1
           and isinstance(a.targets[0], ast.Name) and isinstance(a.value, ast.Call) and isinstance(a.value.func, ast.Attribute)
           and a.value.func.attr == 'index'}
    if not idx:
        raise AnalysisError('D17: index of the edited statement not found')
    # the iteration that selects assignments of the given symbols: a for loop or comprehension whose body / condition tests
    # `<stat>.symbol in <symbols>`
    def selects(node):
        return any(isinstance(c, ast.Compare) and len(c.ops) == 1 and isinstance(c.ops[0], ast.In)
                   and isinstance(c.left, ast.Attribute) and c.left.attr == 'symbol' for c in ast.walk(node))
    sites = []
    for n in ast.walk(f.node):
        if isinstance(n, ast.For) and selects(n):
            sites.append((n, n.iter, [n]))
        elif isinstance(n, (ast.SetComp, ast.ListComp, ast.GeneratorExp)) and selects(n):
            sites.append((n, n.generators[0].iter, [n]))
    if not sites:
        raise AnalysisError('D17: the selection of candidate definitions was not recognised')
    for node, it, _ in sites:
        bounded_iter = any(isinstance(x, ast.Name) and x.id in idx for x in ast.walk(it))
        bounded_test = any(isinstance(c, ast.Compare) and any(isinstance(o, (ast.Lt, ast.LtE, ast.Gt, ast.GtE)) for o in c.ops)
                           and any(isinstance(x, ast.Name) and x.id in idx for x in ast.walk(c)) for c in ast.walk(node))
        ok = bounded_iter or bounded_test
        chk.instance(D17, f'remove_symbol_definitions: candidates from `{unparse(it)[:50]}` bounded by the edited statement: {ok}')
        if not ok:
            chk.violation(D17, sm.rel, f.qualname, f'candidates over {unparse(it)[:60]}',
                          'assignments after the edited statement are candidates for removal as well: a re-assignment of the '
                          'symbol that nothing else reads (a final output) is deleted with its dependencies',
                          line=node.lineno,
                          witness='KA = ...; <ode system using KA>; KA = KA*2 (output): removing the use of KA from the ODE '
                                  'statement deletes the last assignment, the output KA becomes undefined')
