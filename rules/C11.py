"""C11 Random-effect algebra: V1 guarded returns of the PSD repair (invalid -> repaired to something that passed
the PSD test; valid -> untouched)."""
from __future__ import annotations

import ast

from sa.cfg import CFG
from sa.report import AnalysisError
from sa.srcmodel import unparse, walk_no_nested, calls_in, dotted

PSD = 'is_positive_semidefinite'


def run(chk, repo, tier):
    chk.explanation = (
        'V1: in nearest_positive_semidefinite every returned matrix is dominated by a successful '
        'is_positive_semidefinite test of that same variable with no write in between, and the first return hands back '
        'the argument object itself; nearest_valid_parameters overwrites values only when the repaired matrix is a '
        'different object; Model._canonicalize_parameter_estimates (used by create and replace) replaces estimates only '
        'when validation fails; validation and repair use the same predicate. Together: invalid values are replaced by '
        'something that passed the PSD test, valid values are never altered. NOT decided: join/unjoin index bookkeeping, '
        'block-diagonal composition, sd/corr and UCP inverses, nearness of the repaired matrix (numeric).')
    V1 = chk.rule('V1', 'every return of the PSD repair is dominated by a PSD test of the returned variable; overwrite '
                        'sites are guarded by "changed" / "invalid" tests; validator and repair share the predicate',
                  floor=8)
    mm = repo.module('pharmpy.internals.math')
    f = mm.functions.get('nearest_positive_semidefinite')
    if f is None:
        raise AnalysisError('nearest_positive_semidefinite not found')
    cfg = CFG(f.node)
    rets = [n for n in cfg.nodes.values() if n.kind == 'return']
    tests = [n for n in cfg.nodes.values() if n.kind == 'test']
    if len(rets) < 2:
        raise AnalysisError('nearest_positive_semidefinite: returns not found')
    param = f.params[0]
    first = min(rets, key=lambda n: n.line)
    for r in rets:
        v = r.ast.value
        ok = False
        if isinstance(v, ast.Name):
            for t in tests:
                e = t.ast
                pol = 'true'
                if isinstance(e, ast.UnaryOp) and isinstance(e.op, ast.Not):
                    e, pol = e.operand, 'false'
                if isinstance(e, ast.Call) and dotted(e.func) == PSD and len(e.args) == 1 and unparse(e.args[0]) == v.id \
                        and cfg.edge_dominates(t.id, pol, r.id):
                    # no write to v between the test edge and the return
                    starts = list(cfg.succ(t.id, [pol]))
                    between = set()
                    for s_ in starts:
                        between |= {x for x in cfg.reachable(s_, avoid={t.id}) if r.id in cfg.reachable(x, avoid={t.id})}
                    writes = [cfg.nodes[x] for x in between if isinstance(cfg.nodes[x].ast, (ast.Assign, ast.AugAssign))
                              and v.id in {y.id for tg in (cfg.nodes[x].ast.targets if isinstance(cfg.nodes[x].ast, ast.Assign)
                                                          else [cfg.nodes[x].ast.target]) for y in ast.walk(tg)
                                           if isinstance(y, ast.Name)}]
                    if not writes:
                        ok = True
        chk.instance(V1, f'nearest_positive_semidefinite: `{r.text()}` dominated by a PSD test of the same variable: {ok}')
        if not ok:
            chk.violation(V1, mm.rel, f.qualname, r.text(),
                          'a matrix is returned that was not established to be positive semidefinite (or was modified after '
                          'the test)', line=r.line,
                          witness='a symmetric matrix with a negative eigenvalue: the "nearest valid" initial estimates still '
                                  'fail validate_parameters, the model keeps an invalid covariance block')
    chk.instance(V1, f'first return hands back the argument itself: {unparse(first.ast.value)} (parameter {param})')
    if unparse(first.ast.value) != param or any(isinstance(n, (ast.Assign, ast.AugAssign)) and param in
                                                {y.id for y in ast.walk(n.targets[0] if isinstance(n, ast.Assign) else n.target)
                                                 if isinstance(y, ast.Name)} for n in walk_no_nested(f.node)):
        chk.violation(V1, mm.rel, f.qualname, first.text(),
                      'a valid matrix is not returned as the same object (callers detect "unchanged" with `is`)',
                      line=first.line, witness='valid initial estimates are rewritten (rounded / symmetrised)')
    # nearest_valid_parameters
    rv = repo.cls('pharmpy.model.random_variables.RandomVariables')
    nv = rv.methods.get('nearest_valid_parameters')
    vp = rv.methods.get('validate_parameters')
    if nv is None or vp is None:
        raise AnalysisError('nearest_valid_parameters / validate_parameters not found')
    cfg = CFG(nv.node)
    # writes into the dictionary that is returned: d[k] = v, d.update(..), d |= ..
    returned = {unparse(r.value) for r in walk_no_nested(nv.node) if isinstance(r, ast.Return) and isinstance(r.value, ast.Name)}
    if not returned:
        returned = {'nearest'}

    def writes_result(a_):
        if isinstance(a_, ast.Assign) and isinstance(a_.targets[0], ast.Subscript):
            return unparse(a_.targets[0].value) in returned
        if isinstance(a_, ast.AugAssign) and isinstance(a_.op, ast.BitOr):
            return unparse(a_.target) in returned
        if isinstance(a_, ast.Expr) and isinstance(a_.value, ast.Call) and isinstance(a_.value.func, ast.Attribute) \
                and a_.value.func.attr in ('update', '__setitem__', 'setdefault'):
            return unparse(a_.value.func.value) in returned
        return False
    stores = [n for n in cfg.nodes.values() if n.kind == 'stmt' and n.ast is not None and writes_result(n.ast)]
    # `result.update(part)` where `part` is a local dict filled in this function: what matters is when `part` gets entries
    for n in list(stores):
        a_ = n.ast
        if isinstance(a_, ast.Expr) and isinstance(a_.value, ast.Call) and a_.value.func.attr == 'update' and a_.value.args \
                and isinstance(a_.value.args[0], ast.Name):
            part = a_.value.args[0].id
            fills = [m_ for m_ in cfg.nodes.values() if m_.kind == 'stmt' and isinstance(m_.ast, ast.Assign)
                     and isinstance(m_.ast.targets[0], ast.Subscript) and unparse(m_.ast.targets[0].value) == part]
            empty0 = any(isinstance(m_.ast, ast.Assign) and unparse(m_.ast.targets[0]) == part
                         and isinstance(m_.ast.value, (ast.Dict, ast.Call)) and not getattr(m_.ast.value, 'keys', None)
                         and not getattr(m_.ast.value, 'args', None) for m_ in cfg.nodes.values() if m_.kind == 'stmt' and m_.ast is not None)
            if fills and empty0:
                stores.remove(n)
                stores += fills
    from sa import guards as G
    other_object = G.compare_atom(ast.IsNot, ast.Is)
    if not stores:
        raise AnalysisError('nearest_valid_parameters: overwrite site not found')
    for s_ in stores:
        ok = bool(G.guarded(cfg, s_.id, other_object))
        chk.instance(V1, f'nearest_valid_parameters: `{s_.text()}` only when the repaired matrix is another object: {ok}')
        if not ok:
            chk.violation(V1, rv.module.rel, nv.qualname, s_.text(),
                          'values are overwritten although the block was valid', line=s_.line,
                          witness='a model with valid initial estimates: they come back re-computed (floating point noise)')
    uses_same = any(dotted(c.func) == 'nearest_positive_semidefinite' for c in calls_in(nv.node)) and \
        any(dotted(c.func) == PSD for c in calls_in(vp.node))
    chk.instance(V1, f'validate_parameters tests {PSD}; repair calls nearest_positive_semidefinite: {uses_same}')
    if not uses_same:
        chk.violation(V1, rv.module.rel, 'RandomVariables', 'validator / repair predicate',
                      'validation and repair do not use the same positive-semidefinite predicate', line=vp.node.lineno,
                      witness='a matrix that the repair accepts but the validator rejects: Model.create loops/raises or keeps '
                              'invalid estimates')
    # Model._canonicalize_parameter_estimates
    mc = repo.cls('pharmpy.model.model.Model')
    # the canonicalisation step: the helper method, or - when it was folded into its callers - the functions that contain the
    # validate / repair sequence themselves
    hosts = canon_hosts(mc)
    # "validation fails" = the false edge of a validate_parameters(...) call, however the test is written
    def invalid(e):
        return False if isinstance(e, ast.Call) and unparse(e.func).endswith('validate_parameters') else None
    for cp in hosts:
        cfg = CFG(cp.node)
        repl = [n for n in cfg.nodes.values() if isinstance(n.ast, ast.Assign) and 'set_initial_estimates' in unparse(n.ast.value)
                and any('nearest' in unparse(x) for x in ast.walk(n.ast.value))
                or isinstance(n.ast, ast.Assign) and 'set_initial_estimates' in unparse(n.ast.value) and len(hosts) == 1]
        if not repl:
            raise AnalysisError(f'{cp.name}: replacement of the estimates by the repaired ones not found')
        for r in repl:
            ok = bool(G.guarded(cfg, r.id, invalid))
            chk.instance(V1, f'{cp.name}: `{r.text()}` only when validation fails: {ok}')
            if not ok:
                chk.violation(V1, mc.module.rel, cp.qualname, r.text(), 'estimates are replaced although they validate',
                              line=r.line, witness='valid initial estimates are altered by Model.create / replace')
    MARK = canon_marker(mc)
    sites = [fn for fn in mc.methods.values() for c in calls_in(fn.node) if unparse(c.func).endswith(MARK)]
    names_ = sorted({s_.name for s_ in sites})
    chk.instance(V1, f'_canonicalize_parameter_estimates called from {names_}')
    if not {'create', 'replace'} <= set(names_):
        chk.violation(V1, mc.module.rel, 'Model', f'called from {names_}',
                      'Model.create and Model.replace must both canonicalise the parameter estimates',
                      witness='model.replace(parameters=...) with an invalid covariance block keeps it')
    run_more(chk, repo, mc)
    run_v6(chk, repo)
    run_v7_v9(chk, repo)
    run_v10_v12(chk, repo)
    run_v13(chk, repo)
    run_v14(chk, repo)


def canon_hosts(mc):
    cp = mc.methods.get('_canonicalize_parameter_estimates')
    if cp is not None:
        return [cp]
    hosts = [f for nm in ('create', 'replace') for f in [mc.methods.get(nm)] if f is not None and any(
        isinstance(c, ast.Call) and unparse(c.func).endswith('nearest_valid_parameters') for c in ast.walk(f.node))]
    if len(hosts) < 2:
        raise AnalysisError('Model._canonicalize_parameter_estimates not found (and Model.create / Model.replace do not both '
                            'contain the validate / repair sequence)')
    return hosts


def canon_marker(mc):
    return '_canonicalize_parameter_estimates' if mc.methods.get('_canonicalize_parameter_estimates') is not None \
        else 'validate_parameters'


def run_more(chk, repo, mc):
    from sa import lints
    st = lints.self_test()
    if not all(st.values()):
        raise AnalysisError(f'lint self-test failed: {st}')
    V2 = chk.rule('V2', 'index bookkeeping: a loop that deletes rows/columns/names by index iterates the indices in '
                        'descending order', floor=1)
    V3 = chk.rule('V3', 'Model.create / Model.replace: every path to the constructed model passes '
                        '_canonicalize_parameter_estimates (whichever of parameters / random_variables was given)', floor=2)
    V4 = chk.rule('V4', 'conversion loops read the input values, not the dictionary they are writing (no double '
                        'conversion of shared symbols)', floor=1)
    SCOPE = ('pharmpy.model.random_variables', 'pharmpy.model.distributions', 'pharmpy.internals.math',
             'pharmpy.modeling.math', 'pharmpy.modeling.estimation', 'pharmpy.modeling.parameter_variability',
             'pharmpy.model.parameters', 'pharmpy.model.model')
    for f in repo.all_funcs():
        if not f.module.name.startswith(SCOPE):
            continue
        for L, dels, ok in lints.index_deletes(f.node):
            chk.instance(V2, f'{f.qualname}: for {unparse(L.target)} in {unparse(L.iter)}: '
                             f'{[unparse(d)[:30] for d in dels]} descending={ok}')
            if not ok:
                chk.violation(V2, f.module.rel, f.qualname, f'for {unparse(L.target)} in {unparse(L.iter)}: {unparse(dels[0])}',
                              'after the first deletion the remaining indices refer to shifted positions',
                              line=L.lineno,
                              witness='remove two variables from a joint block of four or more (unjoin / selection by '
                                      'names): a wrong name/row is deleted, one name is duplicated and one is lost')
        hits, accs = lints.accumulator_reads(f.node)
        for acc, src in accs.items():
            chk.instance(V4, f'{f.qualname}: {acc} = copy of {src}; whole-dictionary reads inside writing loops: '
                             f'{len([h for h in hits if h[0] == acc])}')
        seen = set()
        for acc, src, L, n in hits:
            if (acc, unparse(n)) in seen:
                continue
            seen.add((acc, unparse(n)))
            chk.violation(V4, f.module.rel, f.qualname, unparse(n),
                          f'`{acc}` is being overwritten by this loop; values converted in an earlier iteration are '
                          f'converted again when a later block uses the same symbols (read `{src}` instead)',
                          line=n.lineno,
                          witness='two joint blocks that share their omega symbols (IOV per occasion / BLOCK SAME): the '
                                  'second block is evaluated on sd/corr values and converted twice')
    V5 = chk.rule('V5', 'per-distribution state of the block bookkeeping (flags tested in an inner loop) is initialised '
                        'inside the loop over the distributions', floor=1)
    for f in repo.all_funcs():
        if not f.module.name.startswith(('pharmpy.model.random_variables', 'pharmpy.model.distributions')):
            continue
        for L, M, v, reinit in lints.loop_carried_flags(f.node):
            chk.instance(V5, f'{f.qualname}: flag `{v}` tested in the loop at line {M.lineno}, initialised per iteration of '
                             f'`for {unparse(L.target) if isinstance(L, ast.For) else "while"}`: {reinit}')
            if not reinit:
                chk.violation(V5, f.module.rel, f.qualname, f'`{v}` initialised outside `for {unparse(L.target)} in '
                                                             f'{unparse(L.iter)}`' if isinstance(L, ast.For) else f'`{v}`',
                              f'`{v}` is consumed by the first block that is split; later blocks touched by the same call '
                              f'never build their remaining sub-block', line=M.lineno,
                              witness='two joint blocks of three etas, unjoin one eta of each: the variables that should '
                                      'stay in the second block disappear')
    # V3
    for name in ('create', 'replace'):
        f = mc.methods.get(name)
        if f is None:
            raise AnalysisError(f'Model.{name} not found')
        cfg = CFG(f.node)
        canon = {n.id for n in cfg.nodes.values() if n.ast is not None and n.kind in ('stmt', 'return')
                 and any(unparse(c.func).endswith(canon_marker(mc))
                         for c in ast.walk(n.ast) if isinstance(c, ast.Call))} | {
            n.id for n in cfg.nodes.values() if n.kind == 'test' and n.ast is not None and canon_marker(mc) == 'validate_parameters'
            and any(isinstance(c, ast.Call) and unparse(c.func).endswith('validate_parameters') for c in ast.walk(n.ast))}
        rets = [n for n in cfg.nodes.values() if n.kind == 'return' and n.ast.value is not None]
        if not canon or not rets:
            raise AnalysisError(f'Model.{name}: canonicalisation call or return not found')
        for r in rets:
            ok = r.id in canon or r.id not in cfg.reachable(cfg.entry, avoid=canon, labels_excluded=('exc', 'fexc'))
            chk.instance(V3, f'Model.{name}: `{r.text()[:60]}` dominated by _canonicalize_parameter_estimates: {ok}')
            if not ok:
                p = cfg.path(cfg.entry, r.id, avoid=canon, labels_excluded=('exc', 'fexc'))
                chk.violation(V3, mc.module.rel, f.qualname, f'return without _canonicalize_parameter_estimates',
                              'a model can be constructed without checking the initial estimates against the (new) '
                              'covariance structure', line=r.line, path=cfg.describe(p or [])[-8:],
                              witness='model.replace(random_variables=joint block) on parameters whose values are '
                                      'indefinite for the new block: the model keeps an invalid covariance matrix')


def run_v6(chk, repo):
    """per-distribution counts use the per-distribution list"""
    V6 = chk.rule('V6', 'unjoin: how many variables stay in a block is computed from the names found in that block, not from the '
                        'whole request', floor=1)
    rv = repo.cls('pharmpy.model.random_variables.RandomVariables')
    f = rv.methods.get('unjoin')
    if f is None:
        raise AnalysisError('RandomVariables.unjoin not found')
    loop = next((L for L in walk_no_nested(f.node) if isinstance(L, ast.For) and 'self._dists' in unparse(L.iter)), None)
    if loop is None:
        raise AnalysisError('V6: loop over the distributions not found')
    dvar = unparse(loop.target)
    local = {t.id for n in ast.walk(loop) if isinstance(n, ast.Assign) for t in n.targets if isinstance(t, ast.Name)}
    n = 0
    for cmp_ in [c for c in ast.walk(loop) if isinstance(c, ast.Compare)]:
        for b in [x for x in ast.walk(cmp_.left) if isinstance(x, ast.BinOp) and isinstance(x.op, ast.Sub)]:
            if not (isinstance(b.left, ast.Call) and dotted(b.left.func) == 'len' and unparse(b.left.args[0]) == dvar
                    and isinstance(b.right, ast.Call) and dotted(b.right.func) == 'len'):
                continue
            n += 1
            arg = b.right.args[0]
            ok = isinstance(arg, ast.Name) and arg.id in local
            chk.instance(V6, f'unjoin: `{unparse(cmp_)}` subtracts a per-block list: {ok}')
            if not ok:
                chk.violation(V6, rv.module.rel, f.qualname, unparse(cmp_),
                              f'`{unparse(arg)}` is the whole request; names that belong to other distributions are counted as '
                              f'removed from this block', line=cmp_.lineno,
                              witness='a block of three, one of its names plus one name of another distribution: the block '
                                      'collapses to a single variable and the other kept variable vanishes')
    if n == 0:
        raise AnalysisError('V6: count of remaining variables not found in unjoin')


def run_v7_v9(chk, repo):
    """V7: the repair of the covariance blocks visits every block; V8: the cursor into the descaled theta vector counts thetas
    only; V9: names and matrix of a joined distribution come from the same computation"""
    from rules.C07 import _body_paths
    rv = repo.cls('pharmpy.model.random_variables.RandomVariables')
    V7 = chk.rule('V7', 'nearest_valid_parameters: the loop over the distributions has no early exit (a valid block does not '
                        'end the repair of the later ones)', floor=1)
    nv = rv.methods.get('nearest_valid_parameters')
    if nv is None:
        raise AnalysisError('nearest_valid_parameters not found')
    # the loop over the distributions: its iterable is (derived from) self._dists, directly or through local generators
    from sa import reach as _reach
    _cfg7 = CFG(nv.node)

    def over_dists(L):
        if '_dists' in unparse(L.iter):
            return True
        at = _reach.node_of(_cfg7, L)
        if at is None:
            at = next((n_.id for n_ in _cfg7.nodes.values() if n_.ast is L), None)
        try:
            return at is not None and '_dists' in unparse(_reach.expand_expr(_cfg7, at, L.iter))
        except Exception:
            return False
    loops = [L for L in walk_no_nested(nv.node) if isinstance(L, ast.For) and over_dists(L)]
    if not loops:
        raise AnalysisError('V7: loop over the distributions not found in nearest_valid_parameters')
    for L in loops:
        def own(x, L=L):
            # break / return that leaves THIS loop (not one of an inner loop)
            for inner in [y for y in ast.walk(L) if isinstance(y, (ast.For, ast.While)) and y is not L]:
                if any(z is x for z in ast.walk(inner)) and isinstance(x, ast.Break):
                    return False
            return True
        exits = [x for x in ast.walk(L) if isinstance(x, (ast.Break, ast.Return)) and own(x)]
        chk.instance(V7, f'nearest_valid_parameters: `for {unparse(L.target)} in {unparse(L.iter)}` early exits: {len(exits)}')
        for x in exits:
            chk.violation(V7, rv.module.rel, nv.qualname, f'{type(x).__name__.lower()} in the loop over the distributions',
                          'the repair stops at the first block that needs none: an invalid block after a valid one keeps its '
                          'indefinite initial estimates', line=x.lineno,
                          witness='two joint blocks, the first positive definite, the second not: Model.create keeps the '
                                  'invalid estimates')
    V8 = chk.rule('V8', 'calculate_parameters_from_ucp: the index into the descaled theta vector advances once per theta read '
                        '(it is not the position among all parameters)', floor=1)
    em = repo.module('pharmpy.modeling.estimation')
    f = em.functions.get('calculate_parameters_from_ucp')
    if f is None:
        raise AnalysisError('calculate_parameters_from_ucp not found')
    n8 = 0
    for L in [x for x in walk_no_nested(f.node) if isinstance(x, ast.For)]:
        reads = [s_ for s_ in ast.walk(L) if isinstance(s_, ast.Subscript) and isinstance(s_.value, ast.Name)
                 and s_.value.id.startswith('descaled') and isinstance(s_.slice, ast.Name)]
        if not reads:
            continue
        n8 += 1
        idx = reads[0].slice.id
        from_enum = idx in {x.id for x in ast.walk(L.target) if isinstance(x, ast.Name)}
        incs = [a for a in ast.walk(L) if isinstance(a, ast.AugAssign) and isinstance(a.target, ast.Name) and a.target.id == idx]
        read_stmts = [s_ for s_ in ast.walk(L) if isinstance(s_, ast.stmt) and not isinstance(s_, (ast.If, ast.For))
                      and any(r is x for r in reads for x in ast.walk(s_))]
        bad = from_enum or not incs
        if not bad:
            for ev, _d in _body_paths(L.body, lambda s_: any(s_ is i for i in incs) or any(s_ is r for r in read_stmts)):
                ni = sum(1 for e in ev if any(e is i for i in incs))
                nr = sum(1 for e in ev if any(e is r for r in read_stmts))
                if ni != nr:
                    bad = True
        chk.instance(V8, f'calculate_parameters_from_ucp: `{unparse(reads[0])}` indexed by a counter of the thetas read: {not bad}')
        if bad:
            chk.violation(V8, em.rel, f.name, f'{unparse(reads[0])} with `{idx}` '
                                              f'{"from enumerate over all parameters" if from_enum else "not advanced per theta"}',
                          'the descaled vector holds the thetas only; indexing it with the position among all estimated '
                          'parameters is right only while every theta precedes every omega and sigma', line=reads[0].lineno,
                          witness='a model with a theta appended after the omegas (add_population_parameter): IndexError or '
                                  'the wrong theta')
    if n8 == 0:
        raise AnalysisError('V8: read of the descaled theta vector not found')
    V9 = chk.rule('V9', 'RandomVariables.join: the names and the covariance matrix of the joined distribution are taken from the '
                        'same _calc_covariance_matrix() result', floor=1)
    jn = rv.methods.get('join')
    if jn is None:
        raise AnalysisError('RandomVariables.join not found')
    unpack = [a for a in walk_no_nested(jn.node) if isinstance(a, ast.Assign) and isinstance(a.targets[0], ast.Tuple)
              and isinstance(a.value, ast.Call) and unparse(a.value.func).endswith('_calc_covariance_matrix')]
    ctor = [c for c in calls_in(jn.node) if dotted(c.func) == 'JointNormalDistribution' and len(c.args) >= 4]
    if not unpack or not ctor:
        raise AnalysisError('V9: _calc_covariance_matrix() unpacking / JointNormalDistribution(...) not found in join')
    got = [unparse(t) for t in unpack[0].targets[0].elts]          # (means, M, names)
    for c in ctor:
        names_arg = {x.id for x in ast.walk(c.args[0]) if isinstance(x, ast.Name)}
        mat_arg = {x.id for x in ast.walk(c.args[3]) if isinstance(x, ast.Name)}
        ok = len(got) == 3 and got[2] in names_arg and got[1] in mat_arg
        chk.instance(V9, f'join: JointNormalDistribution({unparse(c.args[0])}, .., {unparse(c.args[3])}) from ({", ".join(got)}): {ok}')
        if not ok:
            chk.violation(V9, rv.module.rel, jn.qualname, unparse(c)[:100],
                          'the matrix rows follow the order of the collection, the names the order the caller listed them in: '
                          'variances and covariances land on the wrong variables', line=c.lineno,
                          witness="join(['ETA4', 'ETA1']): the variance of ETA1 becomes that of ETA4")


def run_v10_v12(chk, repo):
    """V10: selecting random variables by a container accepts names and symbols alike in both places that look at the container;
    V11: the repaired parameter values are written back whole; V12: the descaled covariance is L @ L.T of the LOWER factor (the
    scale is derived from the lower Cholesky factor)"""
    from sa import reach
    rv = repo.cls('pharmpy.model.random_variables.RandomVariables')
    V10 = chk.rule('V10', 'RandomVariables.__getitem__(container): every filter over the container tests the same spellings '
                          '(name, Expr.symbol(name))', floor=2)
    # (the method has @overload stubs in front of the implementation: take the definition with a body)
    cands = [m_ for k_, m_ in dict.items(rv.methods) if k_.split('#')[0] == '__getitem__']
    gi = max(cands, key=lambda m_: len(list(ast.walk(m_.node)))) if cands else None
    if gi is None:
        raise AnalysisError('RandomVariables.__getitem__ not found')
    par = [p for p in gi.params if p != 'self'][0]
    views = []
    for c in ast.walk(gi.node):
        if isinstance(c, (ast.ListComp, ast.GeneratorExp, ast.SetComp)) and c.generators[0].ifs:
            forms = set()
            # the test may be a local predicate `selected(name)`: its returned expression is looked at instead
            cond = c.generators[0].ifs[0]
            loc = reach.local_callables(gi.node)
            for call in [x for x in ast.walk(cond) if isinstance(x, ast.Call) and isinstance(x.func, ast.Name) and x.func.id in loc]:
                d_ = loc[call.func.id]
                body_ = d_.body if isinstance(d_, ast.Lambda) else next(
                    (r_.value for r_ in ast.walk(d_) if isinstance(r_, ast.Return) and r_.value is not None), None)
                if body_ is not None:
                    cond = body_
            for t in ast.walk(cond):
                if isinstance(t, ast.Compare) and len(t.ops) == 1 and isinstance(t.ops[0], (ast.In, ast.NotIn)) \
                        and unparse(t.comparators[0]) == par:
                    lv = c.generators[0].target
                    txt = unparse(t.left)
                    for x in ast.walk(lv):
                        if isinstance(x, ast.Name):
                            txt = txt.replace(x.id, '_')
                    forms.add('symbol' if 'symbol' in txt or 'Expr' in txt else 'name')
            if forms:
                views.append((c, forms))
    if len(views) < 2:
        raise AnalysisError(f'V10: filters over the container argument of __getitem__ not recognised ({len(views)})')
    allf = set().union(*(f_ for _c, f_ in views))
    for c, forms in views:
        ok = forms == allf
        chk.instance(V10, f'__getitem__: `{unparse(c)[:60]}` tests {sorted(forms)} of {sorted(allf)}: {ok}')
        if not ok:
            chk.violation(V10, rv.module.rel, gi.qualname, unparse(c)[:90],
                          f'this filter accepts {sorted(forms)} only while its sibling accepts {sorted(allf)}: for the other '
                          f'spelling every variable is first split off its block', line=c.lineno,
                          witness='rvs[[Expr.symbol("ETA_1"), Expr.symbol("ETA_2")]] of a joint block: the covariance is lost, '
                                  'rvs[names] != rvs[symbols]')
    V11 = chk.rule('V11', '_canonicalize_parameter_estimates: what nearest_valid_parameters returns is written back as it is '
                          '(no filtering of "unchanged" entries)', floor=1)
    mc = repo.cls('pharmpy.model.model.Model')
    n11 = 0
    for cp, cfg, nd in [(h_, c_, n_) for h_ in canon_hosts(mc) for c_ in [CFG(h_.node)] for n_ in c_.nodes.values()]:
        if nd.kind != 'stmt' or nd.ast is None:
            continue
        if len(canon_hosts(mc)) > 1 and 'nearest' not in unparse(nd.ast):
            continue
        for c in [x for x in ast.walk(nd.ast) if isinstance(x, ast.Call) and isinstance(x.func, ast.Attribute)
                  and x.func.attr == 'set_initial_estimates' and x.args]:
            n11 += 1
            e = reach.expand_expr(cfg, nd.id, c.args[0])
            direct = isinstance(e, ast.Call) and isinstance(e.func, ast.Attribute) and e.func.attr == 'nearest_valid_parameters'
            chk.instance(V11, f'_canonicalize_parameter_estimates: set_initial_estimates({unparse(e)[:60]}) takes the repaired values '
                              f'whole: {direct}')
            if not direct:
                chk.violation(V11, mc.module.rel, cp.qualname, unparse(e)[:90],
                              'only part of the repaired values is written back: a block that was indefinite by rounding noise '
                              'stays indefinite', line=nd.line,
                              witness='a rank deficient block [[0.3, 0.3], [0.3, 0.3]]: Model.create keeps it, validate_parameters '
                                      'of the result is False')
    if n11 == 0:
        raise AnalysisError('V11: set_initial_estimates not found in _canonicalize_parameter_estimates')
    V12 = chk.rule('V12', '_descale_matrix: the matrix is rebuilt as L @ L.T from the lower triangle L', floor=1)
    em = repo.module('pharmpy.modeling.estimation')
    f = em.functions.get('_descale_matrix')
    if f is None:
        # moved / renamed: the function called from calculate_parameters_from_ucp that takes the lower triangle and returns a
        # matrix product
        cp_ = em.functions.get('calculate_parameters_from_ucp')
        for c in (calls_in(cp_.node) if cp_ else []):
            r_ = repo.resolve(em, dotted(c.func) or '') if isinstance(c.func, ast.Name) else None
            g_ = r_[1] if r_ and r_[0] == 'func' else None
            if g_ is not None and 'tril' in unparse(g_.node) and any(isinstance(b, ast.BinOp) and isinstance(b.op, ast.MatMult)
                                                                       for b in ast.walk(g_.node)):
                f = g_
        if f is None:
            raise AnalysisError('_descale_matrix (the function that rebuilds a matrix from its lower factor) not found')
        em = f.module
    fcfg = CFG(f.node)
    rets = [n_ for n_ in fcfg.nodes.values() if n_.kind == 'return' and n_.ast.value is not None]
    n12 = 0
    for r in rets:
        e = r.ast.value
        if not (isinstance(e, ast.BinOp) and isinstance(e.op, ast.MatMult)):
            e = reach.expand_expr(fcfg, r.id, e, depth=1)
        if not (isinstance(e, ast.BinOp) and isinstance(e.op, ast.MatMult)):
            continue
        n12 += 1
        lt, rt = unparse(e.left), unparse(e.right)
        lower = 'tril' in unparse(reach.expand_expr(fcfg, r.id, e.left)) or 'tril' in unparse(reach.expand_expr(fcfg, r.id, e.right))
        ok = lower and rt in (f'{lt}.T', f'{lt}.transpose()', f'({lt}).T')
        chk.instance(V12, f'_descale_matrix: returns `{unparse(e)[:50]}` = (lower factor) @ (its transpose): {ok}')
        if not ok:
            chk.violation(V12, em.rel, f.name, unparse(e)[:80],
                          'calculate_ucp_scale derives the scale from the lower Cholesky factor (A = L L^T); L^T L is another '
                          'matrix unless L is diagonal', line=r.line,
                          witness='a model with a 2x2 OMEGA block: calculate_parameters_from_ucp(model, scale, 0.1..) differs '
                                  'from the initial estimates')
    if n12 == 0:
        raise AnalysisError('V12: matrix product returned by _descale_matrix not found')


def run_v13(chk, repo):
    """V13: JointNormalDistribution.__getitem__ returns the sub-block of the selected variables: the tuple of names and the
    tuple of positions it slices mean and variance with must list the same variables in the same order, i.e. both come out of
    one iteration (or one is computed element by element from the other)"""
    V13 = chk.rule('V13', 'JointNormalDistribution.__getitem__: the names of the sub-distribution and the positions used to slice '
                          'mean and variance come from the same iteration', floor=2)
    dm = repo.module('pharmpy.model.distributions.symbolic')
    jc = dm.classes.get('JointNormalDistribution')
    gi = jc.methods.get('__getitem__') if jc else None
    if gi is None:
        raise AnalysisError('V13: JointNormalDistribution.__getitem__ not found')
    fn = gi.node
    # the two variables: first argument of the JointNormalDistribution(..) that is returned, and the subscript of self._mean
    ctor = [c for c in ast.walk(fn) if isinstance(c, ast.Call) and dotted(c.func) in ('JointNormalDistribution', 'type(self)',
                                                                                      'self.__class__') and c.args]
    N = next((c.args[0].id for c in ctor if isinstance(c.args[0], ast.Name)), None)
    I = None
    for sub in ast.walk(fn):
        if isinstance(sub, ast.Subscript) and unparse(sub.value) in ('self._mean', 'self._variance'):
            nm = [x.id for x in ast.walk(sub.slice) if isinstance(x, ast.Name)]
            if nm:
                I = nm[0]
                break
    if N is None or I is None:
        raise AnalysisError(f'V13: names / positions variables not found ({N}, {I})')
    # plain copies (`idx2 = our_index`, as left behind by an inlined helper that re-binds its parameter) lead back to the
    # variable the branches assign
    for _ in range(4):
        for a_ in ast.walk(fn):
            if isinstance(a_, ast.Assign) and len(a_.targets) == 1 and isinstance(a_.targets[0], ast.Name) \
                    and isinstance(a_.value, ast.Name):
                if a_.targets[0].id == I and a_.value.id != I:
                    I = a_.value.id
                if a_.targets[0].id == N and a_.value.id != N:
                    N = a_.value.id

    def blocks(node):
        for n in ast.walk(node):
            for fld in ('body', 'orelse', 'finalbody'):
                b = getattr(n, fld, None)
                if isinstance(b, list) and b and isinstance(b[0], ast.stmt):
                    yield b

    def source(block, var, value):
        """how the sequence bound to var is produced"""
        e = value
        while isinstance(e, ast.Call) and dotted(e.func) in ('tuple', 'list') and len(e.args) == 1:
            e = e.args[0]
        if isinstance(e, ast.Tuple) and len(e.elts) == 1:
            return ('single',)
        if isinstance(e, ast.Call) and dotted(e.func) == 'range':
            return ('range',)
        if isinstance(e, (ast.GeneratorExp, ast.ListComp)) and len(e.generators) == 1:
            g = e.generators[0]
            it = g.iter
            if isinstance(it, ast.Call) and dotted(it.func) == 'enumerate' and it.args:
                it = it.args[0]
            other = N if var == I else I
            if isinstance(it, ast.Name) and it.id == other:
                return ('derived', other)
            return ('comp', unparse(it), tuple(sorted(unparse(x) for x in g.ifs)))
        if isinstance(e, ast.Name):
            # a list filled by append in a loop of this block
            for L in [x for st in block for x in ast.walk(st) if isinstance(x, ast.For)]:
                apps = [c for c in ast.walk(L) if isinstance(c, ast.Call) and isinstance(c.func, ast.Attribute)
                        and c.func.attr == 'append' and isinstance(c.func.value, ast.Name) and c.func.value.id == e.id]
                if apps:
                    holder = next((x for x in ast.walk(L) if isinstance(x, (ast.If, ast.For)) and any(
                        isinstance(s_, ast.Expr) and s_.value is apps[0] for s_ in getattr(x, 'body', []))), L)
                    return ('loop', id(L), id(holder))
        return None

    n = 0
    for b in blocks(fn):
        da = [s_ for s_ in b if isinstance(s_, ast.Assign) and len(s_.targets) == 1 and isinstance(s_.targets[0], ast.Name)]
        dn = [s_ for s_ in da if s_.targets[0].id == N]
        di = [s_ for s_ in da if s_.targets[0].id == I]
        if not dn or not di or isinstance(di[-1].value, ast.Subscript):
            continue
        sn, si = source(b, N, dn[-1].value), source(b, I, di[-1].value)
        if sn is None or si is None:
            continue
        n += 1
        ok = sn == si or 'derived' in (sn[0], si[0]) or (sn[0] == 'single' and si[0] == 'single') \
            or {sn[0], si[0]} <= {'single', 'range', 'derived'}
        chk.instance(V13, f'{N} <- {sn[0]}, {I} <- {si[0]}: same iteration: {ok}')
        if not ok:
            chk.violation(V13, dm.rel, gi.qualname, f'{unparse(dn[-1])[:60]} / {unparse(di[-1])[:60]}',
                          'the names and the positions of the selected variables are produced by two different iterations: for a '
                          'selection that is not in block order they list the variables in different orders',
                          line=di[-1].lineno,
                          witness="dist[['ETA2', 'ETA1']] on a 3-variable block: var(ETA1) of the result is OMEGA(2,2)")
    if n < 2:
        raise AnalysisError(f'V13: only {n} branches with both names and positions recognised')


def run_v14(chk, repo):
    """V14: being positive semidefinite is invariant under multiplication by a positive number (variances in other units).
    The eigenvalue test of internals.math.is_positive_semidefinite - shared by RandomVariables.validate_parameters,
    nearest_positive_semidefinite and Model._canonicalize_parameter_estimates - must therefore compare with exactly zero or
    with a threshold that scales with the matrix; a non-zero CONSTANT threshold accepts an indefinite matrix on a small scale
    (or rejects a valid one on a large scale)."""
    V14 = chk.rule('V14', 'is_positive_semidefinite: the eigenvalue threshold is 0 or scales with the matrix (no absolute '
                          'tolerance)', floor=1)
    m = repo.module('pharmpy.internals.math')
    f = m.functions.get('is_positive_semidefinite')
    if f is None:
        raise AnalysisError('V14: is_positive_semidefinite not found')
    defs = {a_.targets[0].id: a_.value for a_ in ast.walk(f.node)
            if isinstance(a_, ast.Assign) and len(a_.targets) == 1 and isinstance(a_.targets[0], ast.Name)}
    for a_ in m.tree.body:
        if isinstance(a_, ast.Assign) and len(a_.targets) == 1 and isinstance(a_.targets[0], ast.Name):
            defs.setdefault(a_.targets[0].id, a_.value)

    def const(e, depth=0):
        if isinstance(e, ast.Constant) and isinstance(e.value, (int, float)) and not isinstance(e.value, bool):
            return float(e.value)
        if isinstance(e, ast.UnaryOp) and isinstance(e.op, (ast.USub, ast.UAdd)):
            v = const(e.operand, depth)
            return None if v is None else (-v if isinstance(e.op, ast.USub) else v)
        if isinstance(e, ast.Name) and e.id in defs and depth < 3:
            return const(defs[e.id], depth + 1)
        return None
    cmps = [c for c in ast.walk(f.node) if isinstance(c, ast.Compare) and len(c.ops) == 1
            and isinstance(c.ops[0], (ast.GtE, ast.Gt, ast.LtE, ast.Lt))]
    tol_calls = [c for c in ast.walk(f.node) if isinstance(c, ast.Call) and (dotted(c.func) or '').split('.')[-1] in
                 ('isclose', 'allclose') and any(k.arg == 'atol' and const(k.value) not in (0.0,) for k in c.keywords)]
    if not cmps and not tol_calls:
        raise AnalysisError('V14: no eigenvalue comparison found in is_positive_semidefinite')
    for c in cmps:
        vals = [const(x) for x in (c.left, c.comparators[0])]
        thr = next((v for v in vals if v is not None), None)
        ok = thr is None or thr == 0.0
        chk.instance(V14, f'is_positive_semidefinite: {unparse(c)[:60]}: threshold {"scales / not constant" if thr is None else thr}: {ok}')
        if not ok:
            chk.violation(V14, m.rel, f.qualname, unparse(c)[:80],
                          f'absolute tolerance {thr}: an indefinite matrix whose entries are of that magnitude is accepted',
                          line=c.lineno, witness='1e-8 * [[1, 1.5], [1.5, 1]] (implied correlation 1.5) passes validate_parameters '
                                                 'and is kept by Model.create')
    for c in tol_calls:
        chk.violation(V14, m.rel, f.qualname, unparse(c)[:80], 'absolute tolerance (atol) in the eigenvalue test', line=c.lineno,
                      witness='an indefinite block on a 1e-8 scale is accepted')
