"""C18 Search spaces: G1 grammar<->interpreter exhaustiveness, G2 mode alphabets agree, G3 equality is an
equivalence, G4 attribute coverage of the algebra, G5 wildcard narrowing, G6 no set-ordered pairing,
G7 constructor argument shape / own alphabet, G8 optional children."""
from __future__ import annotations

import ast

from sa import grammar as G
from sa.cfg import CFG
from sa.classes import init_fields, prop_field_map, fields_of, self_name
from sa.report import AnalysisError
from sa.setorder import SetOrder
from sa.srcmodel import unparse, walk_no_nested, calls_in, dotted, owner_class

MFL = 'pharmpy.tools.mfl'
DEFAULT_OK = {'count_array': 'lark\'s default handler returns the list of visited numbers, which is the value',
              'start': 'root'}


def names(node):
    return {n.id for n in ast.walk(node) if isinstance(n, ast.Name)}


def literal_strings(node):
    return {n.value for n in ast.walk(node) if isinstance(n, ast.Constant) and isinstance(n.value, str)}


def run(chk, repo, tier):
    chk.explanation = (
        'Decides structural clauses of the MFL implementation: every grammar rule that produces a tree node has an '
        'interpreter handler (lark\'s default handler degrades silently); the mode alphabets of grammar terminals, '
        'wildcard constants, Literal annotations and setter dispatch chains are the same sets; __eq__ of the feature '
        'classes and of ModelFeatures returns a boolean, treats both operands alike and covers every attribute; '
        '+/-/create/replace mention every attribute; a field that may be a Wildcard is only iterated after an '
        'isinstance test or through .eval; no ordered value is paired positionally with a set; feature constructors '
        'receive tuples of their own alphabet; optional grammar children are not indexed unconditionally. NOT decided: '
        'Bell-number / power-set counts, stepwise path enumeration, set-algebra laws on expanded combinations.')
    G1 = chk.rule('G1', 'every tree-producing grammar rule has an interpreter handler', floor=30)
    G2 = chk.rule('G2', 'mode alphabets agree: grammar terminal == wildcard constant == Literal annotation == '
                        'dispatch chain', floor=8)
    G3 = chk.rule('G3', '__eq__ returns a boolean, is symmetric in self/other, covers every attribute', floor=10)
    G4 = chk.rule('G4', 'create/replace/__add__/__sub__/statement list mention every attribute of ModelFeatures',
                  floor=4)
    G5 = chk.rule('G5', 'a Wildcard-able field is iterated only under an isinstance(.., Wildcard) guard or via .eval',
                  floor=20)
    G6 = chk.rule('G6', 'no positional pairing / ordered result from a set in the search algorithms', floor=3)
    G7 = chk.rule('G7', 'feature constructors get a tuple (or Wildcard) of modes from their own alphabet', floor=10)
    G9 = chk.rule('G9', 'the printer abbreviates a count tuple as i..j only when it equals tuple(range(i, j + 1)), the '
                        'expansion the interpreter gives to a range', floor=1)
    G10 = chk.rule('G10', 'Option(...) is constructed from a boolean expression over .option flags / constants, never '
                          'from the truthiness of an object', floor=3)
    G11 = chk.rule('G11', 'partitions() keeps the input order inside every part (iivsearch compares name tuples)', floor=3)
    from rules import C18b
    C18b.run_g11(chk, G11, repo)
    G12 = chk.rule('G12', 'stepwise search: the peripheral step decision depends on the steps already taken; category and '
                          'repetition guards present', floor=2)
    C18b.run_g12(chk, G12, repo)
    G13 = chk.rule('G13', 'search-space algebra: per-key set differences iterate over the keys of the minuend', floor=2)
    C18b.run_g13(chk, G13, repo)
    G15 = chk.rule('G15', 'least_number_of_transformations: function look-up keys have the component kinds the feature '
                          'modules generate', floor=4)
    C18b.run_g15(chk, G15, repo)
    C18b.run_g16_g18(chk, repo)
    C18b.run_g19_g20(chk, repo)
    C18b.run_g22(chk, repo)
    G8 = chk.rule('G8', 'children[k] is not read unconditionally when the interpreter itself asserts that fewer '
                        'children are possible', floor=3)

    gm = repo.module(f'{MFL}.grammar')
    text = G.embedded_grammar(gm)
    # options as passed by the code (read from the Lark(...) call in parse.py)
    pm = repo.module(f'{MFL}.parse')
    lark_calls = [c for c in ast.walk(pm.tree) if isinstance(c, ast.Call) and dotted(c.func) == 'Lark']
    if not lark_calls:
        raise AnalysisError('Lark(...) call not found in mfl/parse.py')
    opts = {kw.arg: kw.value.value for kw in lark_calls[0].keywords
            if isinstance(kw.value, ast.Constant) and kw.arg in ('start', 'parser', 'maybe_placeholders',
                                                                 'keep_all_tokens')}
    L = G.load_text(text, **{'keep_all_tokens': False, **opts})
    tbl = G.rule_table(L)

    # ------------------------------------------------------------------ G1
    im = repo.module(f'{MFL}.interpreter')
    mi = im.classes.get('MFLInterpreter')
    if mi is None:
        raise AnalysisError('MFLInterpreter not found')
    top = {r for r in G.children_of(L, 'start') if r in tbl}
    for r in sorted(top):
        chk.instance(G1, f'MFLInterpreter.{r}')
        if r not in mi.methods:
            chk.violation(G1, im.rel, 'MFLInterpreter', f'no handler for grammar rule `{r}`',
                          f'statements of kind `{r}` are returned as a raw list of children instead of a Statement',
                          witness=f'parse("{r.upper()}(...)") yields a list inside the statement list; '
                                  f'ModelFeatures.create_from_mfl_statement_list raises/ignores it')
    # per-feature interpreters
    feature_interp = {}
    for r, f in mi.methods.items():
        for c in calls_in(f.node):
            if isinstance(c.func, ast.Attribute) and c.func.attr == 'interpret' and isinstance(c.func.value, ast.Call):
                res = repo.resolve(im, unparse(c.func.value.func))
                if res and res[0] == 'class':
                    feature_interp[r] = res[1]
    if len(feature_interp) < 10:
        raise AnalysisError(f'only {len(feature_interp)} feature interpreters resolved')
    for r, K in sorted(feature_interp.items()):
        seen, stack = set(), [r]
        while stack:
            cur = stack.pop()
            for ch in G.children_of(L, cur):
                if ch in tbl and ch not in seen:
                    seen.add(ch)
                    stack.append(ch)
        for ch in sorted(seen):
            has = repo.find_method(K, ch) is not None
            chk.instance(G1, f'{K.name}.{ch} (under {r}): handler={has}')
            # lark's default handler returns the list of visited children: that is a proper value exactly when
            # every child is itself an interpreted rule (no raw token survives below the rule)
            default_ok = not G.kept_terminals_below(L, ch)
            if not has and not default_ok:
                chk.violation(G1, K.module.rel, K.name, f'no handler for grammar rule `{ch}` under `{r}`',
                              f'lark\'s default handler returns the list of children for `{ch}`; the statement gets a '
                              f'raw list instead of the interpreted value',
                              witness=f'an MFL string using the `{ch}` form parses without error but builds a wrong '
                                      f'{r} statement')

    # ------------------------------------------------------------------ G2 alphabets
    # (terminal, statement module, class, field, wildcard constant, dispatch module)
    CATS = [
        ('ABSORPTION_MODE', 'absorption', 'Absorption', 'modes', 'ABSORPTION_WILDCARD', 'absorption'),
        ('ELIMINATION_MODE', 'elimination', 'Elimination', 'modes', 'ELIMINATION_WILDCARD', 'elimination'),
        ('DEPOT_MODE', 'transits', 'Transits', 'depot', 'TRANSITS_DEPOT_WILDCARD', 'transits'),
        ('PERIPHERAL_MODE', 'peripherals', 'Peripherals', 'modes', 'PERIPHERALS_MODES_WILDCARD', 'peripherals'),
        ('LAGTIME_MODE', 'lagtime', 'LagTime', 'modes', 'LAGTIME_WILDCARD', 'lagtime'),
        ('METABOLITE_MODE', 'metabolite', 'Metabolite', 'modes', 'METABOLITE_WILDCARD', 'metabolite'),
        ('PDTYPE_MODE', 'direct_effect', 'DirectEffect', 'modes', 'DIRECT_EFFECT_WILDCARD', 'direct_effect'),
        ('PDTYPE_MODE', 'effect_comp', 'EffectComp', 'modes', 'EFFECTCOMP_WILDCARD', 'effect_comp'),
        ('PDTYPE_MODE', 'indirect_effect', 'IndirectEffect', 'modes', 'INDIRECT_EFFECT_MODES_WILDCARD',
         'indirect_effect'),
        ('PRODUCTION_MODE', 'indirect_effect', 'IndirectEffect', 'production', 'INDIRECT_EFFECT_PRODUCTION_WILDCARD',
         'indirect_effect'),
    ]
    alphabets = {}
    wildcardable = set()
    for term, smod, cname, field, wconst, dmod in CATS:
        gl = G.literal_alternatives(L, term)
        if gl is None:
            raise AnalysisError(f'terminal {term} is not an alternation of literals')
        sm = repo.module(f'{MFL}.statement.feature.{smod}')
        c = sm.classes.get(cname)
        if c is None or wconst not in sm.globals_:
            raise AnalysisError(f'{cname} / {wconst} not found in {sm.name}')
        wl = {s.upper() for s in literal_strings(sm.globals_[wconst])}
        ann = None
        for n in c.node.body:
            if isinstance(n, ast.AnnAssign) and isinstance(n.target, ast.Name) and n.target.id == field:
                ann = n.annotation
        if ann is None:
            raise AnalysisError(f'{cname}.{field} annotation not found')
        if 'Wildcard' in unparse(ann):
            wildcardable.add(field)
        al = {s.upper() for s in literal_strings(ann)}
        dm = repo.module(f'{MFL}.feature.{dmod}')
        ff = dm.functions.get('features')
        if ff is None:
            raise AnalysisError(f'{dm.name}.features not found')
        dl = set()
        for n in ast.walk(ff.node):
            if isinstance(n, ast.Compare) and len(n.ops) == 1 and isinstance(n.ops[0], ast.Eq) \
                    and isinstance(n.left, ast.Attribute) and n.left.attr == 'name' \
                    and isinstance(n.comparators[0], ast.Constant):
                dl.add(n.comparators[0].value.upper())
        alphabets[(cname, field)] = gl
        chk.instance(G2, f'{cname}.{field}: grammar {sorted(gl)} wildcard {sorted(wl)} Literal {sorted(al)} '
                         f'dispatch {sorted(dl) if dl else "(not by mode name)"}')
        for other, label, where in ((wl, f'{wconst}', sm.rel), (al, f'Literal annotation of {cname}.{field}', sm.rel)):
            if other != gl:
                chk.violation(G2, where, cname, f'{label}: {sorted(other ^ gl)}',
                              f'the {label} and the grammar terminal {term} are different sets', line=c.node.lineno,
                              witness=f'{smod.upper()}(*) expands to a different set of modes than the grammar accepts: '
                                      f'a mode can be requested explicitly but is missing from `*` (or vice versa)')
        partial_dispatch = any(isinstance(n, ast.Raise) for n in ast.walk(ff.node))
        if dl and not partial_dispatch and dl <= gl:
            dl = set(gl)     # total by construction: no mode is refused, literals only select options
        if dl and field in ('modes', 'depot') and cname not in ('IndirectEffect',) and dl != gl:
            chk.violation(G2, dm.rel, 'features', f'dispatch chain modes {sorted(dl ^ gl)}',
                          f'the setter dispatch for {cname} does not cover exactly the grammar alphabet',
                          line=ff.node.lineno,
                          witness=f'a search space containing the missing mode raises ValueError("... not supported") '
                                  f'when converted to functions')
    # get_model_features emits only modes of the alphabets
    gmf = pm.functions.get('get_model_features')
    if gmf is None:
        raise AnalysisError('get_model_features not found')
    emitted = {}
    for n in walk_no_nested(gmf.node):
        if isinstance(n, ast.Assign) and isinstance(n.targets[0], ast.Name) and isinstance(n.value, ast.Constant) \
                and isinstance(n.value.value, str) and n.targets[0].id in ('absorption', 'elimination', 'depot'):
            emitted.setdefault(n.targets[0].id, set()).add(n.value.value.upper())
    # table form: `absorption = next((name for name, has in (('ZO', has_zero_order_absorption), ..) if has(model)), None)`, and
    # conditional expressions `depot = 'DEPOT' if .. else 'NODEPOT'`
    for n in walk_no_nested(gmf.node):
        if isinstance(n, ast.Assign) and isinstance(n.targets[0], ast.Name) \
                and n.targets[0].id in ('absorption', 'elimination', 'depot') and not isinstance(n.value, ast.Constant):
            for g_ in [x for x in ast.walk(n.value) if isinstance(x, (ast.GeneratorExp, ast.ListComp))]:
                tab = g_.generators[0].iter
                if isinstance(tab, ast.Name):
                    tab = pm.globals_.get(tab.id, tab)
                if isinstance(tab, (ast.Tuple, ast.List)):
                    for row in tab.elts:
                        if isinstance(row, ast.Tuple) and row.elts and isinstance(row.elts[0], ast.Constant) \
                                and isinstance(row.elts[0].value, str):
                            emitted.setdefault(n.targets[0].id, set()).add(row.elts[0].value.upper())
            if isinstance(n.value, ast.IfExp):
                for br in (n.value.body, n.value.orelse):
                    if isinstance(br, ast.Constant) and isinstance(br.value, str):
                        emitted.setdefault(n.targets[0].id, set()).add(br.value.upper())
    for var, (cn, fld) in (('absorption', ('Absorption', 'modes')), ('elimination', ('Elimination', 'modes')),
                           ('depot', ('Transits', 'depot'))):
        em = emitted.get(var, set())
        chk.instance(G2, f'get_model_features {var}: emits {sorted(em)}')
        if not em or not em <= alphabets[(cn, fld)]:
            chk.violation(G2, pm.rel, 'get_model_features', f'{var} strings {sorted(em - alphabets[(cn, fld)])}',
                          'get_model_features emits a mode string that the grammar does not accept',
                          line=gmf.node.lineno, witness='ModelFeatures.create_from_mfl_string(get_model_features(m)) fails')
        if var != 'depot' and em != alphabets[(cn, fld)]:
            chk.violation(G2, pm.rel, 'get_model_features', f'{var} never reported: {sorted(alphabets[(cn, fld)] - em)}',
                          'a mode of the alphabet can never be reported for a model', line=gmf.node.lineno,
                          witness='after setting that feature the detector string does not contain it')

    # ------------------------------------------------------------------ feature classes
    fclasses = []
    for mod in repo.modules.values():
        if mod.name.startswith(f'{MFL}.statement.feature.'):
            for c in mod.classes.values():
                if any(unparse(b) == 'ModelFeature' for b in c.base_exprs):
                    fclasses.append(c)
    if len(fclasses) < 10:
        raise AnalysisError(f'only {len(fclasses)} ModelFeature classes found')
    mf = pm.classes.get('ModelFeatures')
    if mf is None:
        raise AnalysisError('ModelFeatures not found')

    # ---- G3
    for c in fclasses + [mf]:
        e = c.methods.get('__eq__')
        if e is None:
            continue
        other = e.params[1] if len(e.params) > 1 else 'other'
        for r in [n for n in walk_no_nested(e.node) if isinstance(n, ast.Return) and n.value is not None]:
            chk.instance(G3, f'{c.name}.__eq__: return {unparse(r.value)[:60]}')
            if isinstance(r.value, (ast.Tuple, ast.List)):
                chk.violation(G3, c.module.rel, f'{c.name}.__eq__', unparse(r),
                              '__eq__ returns a tuple, which is always truthy', line=r.lineno,
                              witness=f'any two {c.name} objects compare equal')
        # symmetry: the attributes read from self and from other are the same
        sa_ = {n.attr for n in ast.walk(e.node) if isinstance(n, ast.Attribute) and isinstance(n.value, ast.Name)
               and n.value.id == 'self' and not n.attr.startswith('_eq') and not n.attr.startswith('_extract')}
        oa = {n.attr for n in ast.walk(e.node) if isinstance(n, ast.Attribute) and isinstance(n.value, ast.Name)
              and n.value.id == other}
        helpers = [n.attr for n in ast.walk(e.node) if isinstance(n, ast.Attribute) and isinstance(n.value, ast.Name)
                   and n.value.id == 'self' and (n.attr.startswith('_eq') or n.attr.startswith('_extract'))]
        chk.instance(G3, f'{c.name}.__eq__: self{sorted(sa_)} other{sorted(oa)} helpers{helpers}')
        if sa_ != oa:
            chk.violation(G3, c.module.rel, f'{c.name}.__eq__', f'self{sorted(sa_ - oa)} other{sorted(oa - sa_)}',
                          '__eq__ reads different attributes of self and other', line=e.node.lineno,
                          witness='a == b and b == a differ')
    # helper equalities must be two-sided: `all(c in rhs for c in lhs)` alone is a subset test
    for hname in ('_eq_covariate', '_eq_transits'):
        h = mf.methods.get(hname)
        if h is None:
            continue
        for r in [n for n in walk_no_nested(h.node) if isinstance(n, ast.Return) and n.value is not None]:
            alls = [c for c in ast.walk(r.value) if isinstance(c, ast.Call) and dotted(c.func) == 'all']
            one_sided = False
            if alls:
                dirs = set()
                for c in alls:
                    g = c.args[0]
                    if isinstance(g, (ast.GeneratorExp, ast.ListComp)) and isinstance(g.elt, ast.Compare) \
                            and isinstance(g.elt.ops[0], ast.In):
                        dirs.add((unparse(g.generators[0].iter), unparse(g.elt.comparators[0])))
                one_sided = any((b, a) not in dirs for a, b in dirs)
            chk.instance(G3, f'ModelFeatures.{hname}: return {unparse(r.value)[:70]}')
            if one_sided:
                chk.violation(G3, pm.rel, f'ModelFeatures.{hname}', unparse(r),
                              'the helper tests inclusion in one direction only', line=r.lineno,
                              witness='a search space and a strict superset of it: a == b but not b == a')
    # coverage of ModelFeatures.__eq__
    e = mf.methods.get('__eq__')
    attrs = set(init_fields(repo, mf))
    props = prop_field_map(repo, mf)
    used = set()
    for n in ast.walk(e.node):
        if isinstance(n, ast.Attribute) and isinstance(n.value, ast.Name) and n.value.id == 'self':
            if n.attr in props:
                used.add(props[n.attr])
            elif n.attr in attrs:
                used.add(n.attr)
            else:
                hm = mf.methods.get(n.attr)
                if hm is not None:
                    used |= fields_of(repo, mf, hm.node, 'self')
    for a in sorted(attrs):
        chk.instance(G3, f'ModelFeatures.__eq__ covers {a}: {a in used}')
        if a not in used:
            chk.violation(G3, pm.rel, 'ModelFeatures.__eq__', f'{a} not compared',
                          f'two search spaces differing only in {a.lstrip("_")} compare equal', line=e.node.lineno,
                          witness=f'parse("ABSORPTION(FO);{a.lstrip("_").upper()}(..)") == parse("ABSORPTION(FO)")')

    # ---- G4
    params = [p for p in mf.methods['__init__'].all_params if p != 'self']
    for meth in ('create', 'replace', '__add__', '__sub__', 'create_from_mfl_statement_list'):
        f = mf.methods.get(meth)
        if f is None:
            raise AnalysisError(f'ModelFeatures.{meth} not found')
        ctor_calls = [c for c in calls_in(f.node) if unparse(c.func) in ('cls', 'ModelFeatures.create', 'cls.create',
                                                                        'ModelFeatures')]
        if not ctor_calls:
            raise AnalysisError(f'ModelFeatures.{meth}: no constructor/create call found')
        for c in ctor_calls:
            kws = {kw.arg for kw in c.keywords}
            missing = [p for p in params if p not in kws]
            chk.instance(G4, f'ModelFeatures.{meth}: {unparse(c.func)}(...) passes {len(kws)}/{len(params)} attributes')
            for p in missing:
                chk.violation(G4, pm.rel, f'ModelFeatures.{meth}', f'{unparse(c.func)}(...) without {p}=',
                              f'{meth} drops the attribute `{p}`', line=c.lineno,
                              witness=f'a search space with {p.upper()}(...) loses it in the result of {meth}: '
                                      f'(a {"+" if "add" in meth else "-"} b).{p} is None although a.{p} is set')
    sl = mf.methods.get('mfl_statement_list')
    lst_strings = literal_strings(sl.node)
    for p in params:
        chk.instance(G4, f'mfl_statement_list mentions {p}: {p in lst_strings}')
        if p not in lst_strings:
            chk.violation(G4, pm.rel, 'ModelFeatures.mfl_statement_list', f'{p} never listed',
                          f'the printed form (repr) omits `{p}`', line=sl.node.lineno,
                          witness=f'repr(space) does not contain {p.upper()}(...): parsing the printed form gives a '
                                  f'different space')

    # ---- G5 wildcard narrowing
    scopes = [f for c in fclasses for f in c.methods.values()] + list(mf.methods.values()) + \
        [f for mod in repo.modules.values() if mod.name.startswith(f'{MFL}.feature.') for f in mod.functions.values()]
    ITER_FUNCS = {'set', 'tuple', 'list', 'len', 'sorted', 'frozenset', 'product'}
    for f in scopes:
        uses = []   # (node ast, base text, field, how)
        for n in walk_no_nested(f.node):
            cand = []
            if isinstance(n, ast.Call) and (dotted(n.func) or '').split('.')[-1] in ITER_FUNCS:
                cand += [(a, 'iterated by ' + dotted(n.func)) for a in n.args]
            if isinstance(n, (ast.For,)):
                cand.append((n.iter, 'for loop'))
            if isinstance(n, ast.comprehension):
                cand.append((n.iter, 'comprehension'))
            if isinstance(n, ast.Compare) and any(isinstance(o, (ast.In, ast.NotIn)) for o in n.ops):
                cand += [(c_, 'membership test') for c_ in n.comparators]
            if isinstance(n, ast.BinOp) and isinstance(n.op, ast.Add):
                cand += [(n.left, 'tuple concatenation'), (n.right, 'tuple concatenation')]
            for ex, how in cand:
                if isinstance(ex, ast.Attribute) and ex.attr in wildcardable:
                    uses.append((n, ex, how))
        if not uses:
            continue
        cfg = CFG(f.node)
        # map ast node -> cfg node containing it
        def cfg_node_of(x):
            for nd in cfg.nodes.values():
                if nd.ast is None or nd.kind in ('with_exit', 'join', 'dispatch', 'except'):
                    continue
                root = nd.ast.iter if nd.kind == 'for' else nd.ast
                if nd.kind == 'for' and x is nd.ast:
                    return nd
                if isinstance(root, (ast.FunctionDef, ast.ClassDef)):
                    continue
                if any(y is x for y in ast.walk(root)):
                    return nd
            return None
        tests = [nd for nd in cfg.nodes.values() if nd.kind == 'test']
        for holder, ex, how in uses:
            base = unparse(ex.value)
            via_eval = base.endswith('.eval') or base.endswith('_eval') or base.endswith('.eval()')
            nd = cfg_node_of(holder if not isinstance(holder, ast.comprehension) else ex)
            guarded = False
            if nd is not None and not via_eval:
                pat = f'isinstance({unparse(ex)}, Wildcard)'
                for t in tests:
                    if pat in unparse(t.ast) and not isinstance(t.ast, ast.BoolOp) or \
                            (isinstance(t.ast, ast.BoolOp) and isinstance(t.ast.op, ast.Or) and pat in unparse(t.ast)):
                        if cfg.edge_dominates(t.id, 'false', nd.id):
                            guarded = True
                    if isinstance(t.ast, ast.UnaryOp) and isinstance(t.ast.op, ast.Not) and pat in unparse(t.ast) \
                            and cfg.edge_dominates(t.id, 'true', nd.id):
                        guarded = True
                # guard inside the same expression: `X if isinstance(..) else ...` / IfExp
                for p_ in ast.walk(f.node):
                    if isinstance(p_, ast.IfExp) and pat in unparse(p_.test) and any(y is ex for y in ast.walk(p_.orelse)):
                        guarded = True
            chk.instance(G5, f'{f.qualname}: {unparse(ex)} {how} (eval={via_eval}, guarded={guarded})')
            if not (via_eval or guarded):
                chk.violation(G5, f.module.rel, f.qualname, f'{unparse(ex)} {how}',
                              f'`{unparse(ex)}` may be a Wildcard (annotation) but is iterated without an '
                              f'isinstance(..., Wildcard) guard or .eval', line=getattr(ex, 'lineno', f.node.lineno),
                              witness='a search space using `*` for this option: the operation raises TypeError '
                                      '("Wildcard object is not iterable")')

    # ---- G6 set ordered pairing in search algorithms
    alg_mods = [m_ for m_ in repo.modules.values()
                if m_.name in ('pharmpy.tools.modelsearch.algorithms', 'pharmpy.tools.iivsearch.algorithms',
                               'pharmpy.tools.mfl.helpers', 'pharmpy.internals.set.partitions',
                               'pharmpy.internals.set.subsets', 'pharmpy.tools.mfl.stringify')]
    if len(alg_mods) < 4:
        raise AnalysisError('search algorithm modules not found')
    pending = {}
    analysed = {}
    for mod in alg_mods:
        for f in mod.functions.values():
            so = SetOrder(f.node, set_attrs=())
            analysed[f.fq] = so
            for call, kinds in so.call_arg_kinds.values():
                callee, off = None, 0
                if dotted(call.func) == 'Task' and len(call.args) >= 2:
                    r = repo.resolve(mod, unparse(call.args[1])) if isinstance(call.args[1], (ast.Name, ast.Attribute)) else None
                    if r and r[0] == 'func':
                        callee, off = r[1], 2
                else:
                    r = repo.resolve_call(f, call)
                    if r and r[0] == 'func':
                        callee = r[1]
                if callee is None:
                    continue
                for i, k in enumerate(kinds):
                    if k and i >= off and i - off < len(callee.params):
                        pending.setdefault(callee.fq, set()).add(callee.params[i - off])
    for fq, ps in pending.items():
        f = repo.func(fq)
        analysed[fq + '#setparams'] = SetOrder(f.node, set_attrs=(), set_params=ps)
    for key, so in analysed.items():
        fq = key.split('#')[0]
        f = repo.func(fq)
        chk.instance(G6, f'{f.qualname}: {len(so.leaks)} order leak(s)' + (' [set-valued parameter]' if '#' in key else ''))
        for node, expr, why, txt in so.leaks:
            chk.violation(G6, f.module.rel, f.qualname, f'{txt} [{why}]',
                          f'{why}: candidates / transformation order depend on hash order', line=getattr(expr, 'lineno', None),
                          witness='a combination of two or more features: functions are applied in an arbitrary order and '
                                  'paired with the wrong feature key; runs are not reproducible')

    # ---- G7 constructor shape and alphabet
    cname_to_alpha = {}
    for (cn, fld), al in alphabets.items():
        cname_to_alpha.setdefault(cn, {})[fld] = al
    for c in fclasses:
        flds = [n.target.id for n in c.node.body if isinstance(n, ast.AnnAssign) and isinstance(n.target, ast.Name)]
        anns = {n.target.id: unparse(n.annotation) for n in c.node.body if isinstance(n, ast.AnnAssign)
                and isinstance(n.target, ast.Name)}
        for f in c.methods.values():
            for call in calls_in(f.node):
                if dotted(call.func) != c.name:
                    continue
                argmap = {}
                for i, a in enumerate(call.args):
                    if i < len(flds):
                        argmap[flds[i]] = a
                for kw in call.keywords:
                    if kw.arg in flds:
                        argmap[kw.arg] = kw.value
                for fld, a in argmap.items():
                    if 'tuple' not in anns.get(fld, ''):
                        continue
                    chk.instance(G7, f'{f.qualname}: {c.name}({fld}={unparse(a)[:40]})')
                    scalar = isinstance(a, ast.Call) and dotted(a.func) == 'Name'
                    if scalar:
                        chk.violation(G7, c.module.rel, f.qualname, unparse(call),
                                      f'`{fld}` is annotated as a tuple (or Wildcard) but gets a single Name: '
                                      f'`(Name(..))` is not a tuple', line=call.lineno,
                                      witness=f'the returned {c.name} has a bare Name as {fld}: len(), iteration and '
                                              f'stringification of the result raise TypeError')
                    if fld in cname_to_alpha.get(c.name, {}):
                        lits = {s.upper() for x in ast.walk(a) if isinstance(x, ast.Call) and dotted(x.func) == 'Name'
                                for s in literal_strings(x)}
                        for bad in sorted(lits - cname_to_alpha[c.name][fld]):
                            chk.violation(G7, c.module.rel, f.qualname, unparse(call),
                                          f'mode {bad} is not in the alphabet of {c.name}.{fld} '
                                          f'{sorted(cname_to_alpha[c.name][fld])}', line=call.lineno,
                                          witness=f'the result contains {c.name.upper()}({bad}), which the grammar '
                                                  f'rejects and the setter dispatch does not support')

    # ---- G8 assert-len contradiction
    for mod in repo.modules.values():
        if not mod.name.startswith(f'{MFL}.statement'):
            continue
        for f in mod.functions.values():
            bounds = {}
            for n in walk_no_nested(f.node):
                if isinstance(n, ast.Assert) and isinstance(n.test, ast.Compare):
                    t = n.test
                    # a <= len(X) <= b   or   len(X) == a
                    parts = [t.left] + t.comparators
                    for i, p_ in enumerate(parts):
                        if isinstance(p_, ast.Call) and dotted(p_.func) == 'len' and isinstance(p_.args[0], ast.Name):
                            var = p_.args[0].id
                            lo = None
                            if i > 0 and isinstance(parts[i - 1], ast.Constant) and isinstance(t.ops[i - 1], (ast.LtE, ast.Eq)):
                                lo = parts[i - 1].value
                            if i == 0 and isinstance(t.ops[0], ast.Eq) and isinstance(parts[1], ast.Constant):
                                lo = parts[1].value
                            if lo is not None:
                                bounds[var] = lo
            if not bounds:
                continue
            cfg = None
            for n in walk_no_nested(f.node):
                if isinstance(n, ast.Subscript) and isinstance(n.value, ast.Name) and n.value.id in bounds \
                        and isinstance(n.slice, ast.Constant) and isinstance(n.slice.value, int):
                    k = n.slice.value
                    lo = bounds[n.value.id]
                    guarded = False
                    if k >= lo:
                        # any enclosing if / ifexp mentioning len(var)
                        for p_ in ast.walk(f.node):
                            if isinstance(p_, (ast.If, ast.IfExp)) and f'len({n.value.id})' in unparse(p_.test) \
                                    and any(y is n for y in ast.walk(p_)):
                                guarded = True
                    chk.instance(G8, f'{f.qualname}: {unparse(n)} with assert len >= {lo} (guarded={guarded})')
                    if k >= lo and not guarded:
                        chk.violation(G8, mod.rel, f.qualname, unparse(n),
                                      f'the interpreter asserts that `{n.value.id}` may have only {lo} element(s) but '
                                      f'reads element {k} unconditionally', line=n.lineno,
                                      witness='the documented short form of the statement (optional argument omitted) '
                                              'raises IndexError instead of parsing')

    # ---- G9 printer/parser inverse for ranges
    sm = repo.module(f'{MFL}.stringify')
    sa_ = sm.functions.get('_stringify_attribute')
    ci = repo.module(f'{MFL}.statement.feature.count_interpreter').classes['CountInterpreter'].methods.get('range')
    if sa_ is None or ci is None:
        raise AnalysisError('_stringify_attribute / CountInterpreter.range not found')
    # interpreter side: list(range(left, right + 1))
    interp_ok = any(isinstance(c, ast.Call) and dotted(c.func) == 'range' and len(c.args) == 2
                    and isinstance(c.args[1], ast.BinOp) and isinstance(c.args[1].op, ast.Add)
                    and isinstance(c.args[1].right, ast.Constant) and c.args[1].right.value == 1
                    for c in ast.walk(ci.node))
    cfg = CFG(sa_.node)
    param = sa_.params[0]
    rets = [n for n in cfg.nodes.values() if n.kind == 'return' and isinstance(n.ast.value, ast.JoinedStr)
            and any(isinstance(v, ast.Constant) and '..' in str(v.value) for v in n.ast.value.values)]
    if not rets or not interp_ok:
        raise AnalysisError('G9: range printing / range interpretation not found in the expected form')
    for r in rets:
        fvs = [unparse(v.value) for v in r.ast.value.values if isinstance(v, ast.FormattedValue)]
        good = False
        for t in [n for n in cfg.nodes.values() if n.kind == 'test']:
            e = t.ast
            if not (isinstance(e, ast.Compare) and len(e.ops) == 1 and isinstance(e.ops[0], ast.Eq)):
                continue
            sides = [e.left, e.comparators[0]]
            others = [s_ for s_ in sides if not (isinstance(s_, ast.Name) and s_.id == param)]
            if len(others) != 1 or not any(isinstance(s_, ast.Name) and s_.id == param for s_ in sides):
                continue
            o = others[0]
            if isinstance(o, ast.Call) and dotted(o.func) == 'tuple' and len(o.args) == 1 \
                    and isinstance(o.args[0], ast.Call) and dotted(o.args[0].func) == 'range' \
                    and len(o.args[0].args) == 2 and len(fvs) == 2 \
                    and unparse(o.args[0].args[0]) == fvs[0] and unparse(o.args[0].args[1]) == f'{fvs[1]} + 1' \
                    and cfg.edge_dominates(t.id, 'true', r.id):
                good = True
        chk.instance(G9, f'{unparse(r.ast.value)} guarded by {param} == tuple(range({", ".join(fvs)} + 1)): {good}')
        if not good:
            chk.violation(G9, sm.rel, sa_.qualname, unparse(r.ast),
                          'a count tuple is printed as a range without testing that it is exactly that range',
                          line=r.line,
                          witness='TRANSITS([0,4,1,3]) (or the set-ordered result of a union) prints as TRANSITS(0..3): '
                                  'parsing the printed form gives a different search space')
    # ---- G10 Option construction
    for mod in repo.modules.values():
        if not mod.name.startswith(MFL):
            continue
        for f in mod.functions.values():
            for c in calls_in(f.node):
                if dotted(c.func) != 'Option' or len(c.args) != 1:
                    continue
                a = c.args[0]

                def boolish(e):
                    if isinstance(e, ast.Constant) and isinstance(e.value, bool):
                        return True
                    if isinstance(e, ast.Attribute) and e.attr == 'option':
                        return True
                    if isinstance(e, ast.UnaryOp) and isinstance(e.op, ast.Not):
                        return boolish(e.operand)
                    if isinstance(e, ast.BoolOp):
                        return all(boolish(v) for v in e.values)
                    if isinstance(e, ast.IfExp):
                        return boolish(e.body) and boolish(e.orelse) and boolish(e.test)
                    if isinstance(e, ast.Compare):
                        return True
                    return False
                chk.instance(G10, f'{f.qualname}: {unparse(c)}')
                if not boolish(a):
                    chk.violation(G10, mod.rel, f.qualname, unparse(c),
                                  'the flag is derived from the truthiness of an object (an Option instance is always '
                                  'truthy), not from its .option value', line=c.lineno,
                                  witness='COVARIATE?(CL,WT,EXP) - COVARIATE(CL,WT,EXP): the optional effect is not '
                                          'removed, so effects(A - B) != effects(A) minus effects(B)')
