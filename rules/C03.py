"""C03 Control streams round-trip losslessly; edits touch only what changed (S1-S8)."""
from __future__ import annotations

import ast
import re
import re._parser as sre_parse

from sa import grammar as G
from sa.cfg import CFG
from sa.report import AnalysisError
from sa.srcmodel import unparse, walk_no_nested, calls_in, dotted, owner_class

NM = 'pharmpy.model.external.nonmem'
RETOK_ALPHABET = None   # read from ignored.py


def names(node):
    return {n.id for n in ast.walk(node) if isinstance(n, ast.Name)}


def dict_call_literal(node):
    """dict(a=1, b=True) / {'a': 1} -> python dict of constants"""
    out = {}
    if isinstance(node, ast.Call) and dotted(node.func) == 'dict':
        for kw in node.keywords:
            if isinstance(kw.value, ast.Constant):
                out[kw.arg] = kw.value.value
    elif isinstance(node, ast.Dict):
        for k, v in zip(node.keys, node.values):
            if isinstance(k, ast.Constant) and isinstance(v, ast.Constant):
                out[k.value] = v.value
    return out


def first_chars(rx: str):
    """(set of possible first characters, can_match_empty) of a regex; None for 'any'"""
    parsed = sre_parse.parse(rx)

    def fc(seq):
        out = set()
        for op, av in seq:
            if op is sre_parse.LITERAL:
                out.add(chr(av))
                return out, False
            if op is sre_parse.NOT_LITERAL or op is sre_parse.ANY:
                return None, False
            if op is sre_parse.IN:
                neg = any(o is sre_parse.NEGATE for o, _ in av)
                if neg:
                    return None, False
                for o, a in av:
                    if o is sre_parse.LITERAL:
                        out.add(chr(a))
                    elif o is sre_parse.RANGE:
                        out |= {chr(c) for c in range(a[0], a[1] + 1)}
                    elif o is sre_parse.CATEGORY:
                        return None, False
                return out, False
            if op is sre_parse.SUBPATTERN:
                s, e = fc(av[3])
                if s is None:
                    return None, False
                out |= s
                if not e:
                    return out, False
                continue
            if op is sre_parse.BRANCH:
                emp = False
                for alt in av[1]:
                    s, e = fc(alt)
                    if s is None:
                        return None, False
                    out |= s
                    emp |= e
                if not emp:
                    return out, False
                continue
            if op in (sre_parse.MAX_REPEAT, sre_parse.MIN_REPEAT):
                lo, hi, sub = av
                s, e = fc(sub)
                if s is None:
                    return None, False
                out |= s
                if lo > 0 and not e:
                    return out, False
                continue
            if op is sre_parse.AT:
                continue
            return None, False
        return out, True
    return fc(parsed)


def can_contain(rx: str, chars: set[str], allow_trailing_newline=False) -> bool:
    """can a match of rx contain one of chars (over-approximation by scanning literals / classes).
    With allow_trailing_newline a final `\r?\n` of the pattern is not counted (the re-tokeniser splits
    such a token into the part before the line feed and a NEWLINE token, losing nothing)."""
    parsed = list(sre_parse.parse(rx))
    if allow_trailing_newline and parsed and parsed[-1] == (sre_parse.LITERAL, 10):
        parsed = parsed[:-1]
        if parsed and parsed[-1][0] is sre_parse.MAX_REPEAT and parsed[-1][1][0] == 0 \
                and list(parsed[-1][1][2]) == [(sre_parse.LITERAL, 13)]:
            parsed = parsed[:-1]

    def walk(seq):
        for op, av in seq:
            if op is sre_parse.LITERAL and chr(av) in chars:
                return True
            if op is sre_parse.ANY:
                return '\n' in chars and False or True if chars - {'\n'} else False
            if op is sre_parse.NOT_LITERAL:
                if chars - {chr(av)}:
                    return True
            if op is sre_parse.IN:
                neg = any(o is sre_parse.NEGATE for o, _ in av)
                members = set()
                for o, a in av:
                    if o is sre_parse.LITERAL:
                        members.add(chr(a))
                    elif o is sre_parse.RANGE:
                        members |= {chr(c) for c in range(a[0], a[1] + 1)}
                    elif o is sre_parse.CATEGORY:
                        nm = str(a)
                        if 'SPACE' in nm and 'NOT' not in nm:
                            members |= {' ', '\t', '\n', '\r'}
                        else:
                            return True
                if neg:
                    if chars - members:
                        return True
                elif chars & members:
                    return True
            if op is sre_parse.SUBPATTERN and walk(av[3]):
                return True
            if op is sre_parse.BRANCH and any(walk(alt) for alt in av[1]):
                return True
            if op in (sre_parse.MAX_REPEAT, sre_parse.MIN_REPEAT) and walk(av[2]):
                return True
        return False
    return walk(parsed)


def run(chk, repo, tier):
    chk.explanation = (
        'Lossless parse->print is reduced to structural conditions that are decided on every parser class, grammar '
        'and printing method: S1 all record parsers keep all tokens and use no placeholders; S2 grammars with %ignore '
        'are post-processed by with_ignored_tokens; S3 every ignored terminal starts in (and stays in) the alphabet '
        'the re-tokeniser dispatches on; S4 the record splitter and the name splitter consume text only inside '
        'capturing groups and keep a whitespace-only preamble; S5 all __str__ are pure concatenations and records '
        'keep identity semantics; S6 the destructive parts of update_source are dominated by a comparison with the '
        'old_* snapshot; S8 positions recorded in the statement->node index are taken after the latest mutation of '
        'the node list. NOT decided: frame preservation of run-time tree edits (OptionRecord, token-level updates; '
        'see C04 for the parameter records).')
    S1 = chk.rule('S1', 'record parsers: keep_all_tokens=True, maybe_placeholders=False (merged options)', floor=8)
    S2 = chk.rule('S2', 'grammar has %ignore  <=>  with_ignored_tokens in post_process', floor=8)
    S3 = chk.rule('S3', 'ignored terminals start in the re-tokeniser alphabet; comment/continuation/blank tokens '
                        'cannot span a line feed; \\r only as \\r\\n', floor=20)
    S4 = chk.rule('S4', 'record splitter / name splitter are lossless (capturing groups cover all consumed text, '
                        'preamble kept when non-empty)', floor=4)
    S5 = chk.rule('S5', '__str__ of stream/record/tree/token is a pure concatenation, not overridden; records have '
                        'identity equality', floor=8)
    S6 = chk.rule('S6', 'destructive record resets in update_source are dominated by a test against the old_* '
                        'snapshot', floor=4)
    S8 = chk.rule('S8', 'a position computed as len(list) is not reused across loop iterations that extend the list',
                  floor=1)

    pm = repo.module(f'{NM}.records.parsers')
    gp = repo.cls('pharmpy.internals.parse.generic.GenericParser')
    base_opts = None
    for n in gp.node.body:
        if isinstance(n, ast.Assign) and unparse(n.targets[0]) == 'lark_options':
            base_opts = dict_call_literal(n.value)
    if not base_opts:
        raise AnalysisError('GenericParser.lark_options not found')
    # install_grammar must merge base and class options in that order
    ig = pm.functions.get('install_grammar')
    if ig is None:
        raise AnalysisError('install_grammar not found')
    lark_calls = [c for c in calls_in(ig.node) if dotted(c.func) == 'Lark']
    merged_ok = False
    for c in lark_calls:
        for kw in c.keywords:
            if kw.arg is None and isinstance(kw.value, ast.Dict) and all(k is None for k in kw.value.keys):
                parts = [unparse(v) for v in kw.value.values]
                merged_ok = len(parts) == 2 and parts[0] == 'GenericParser.lark_options' and 'grammar_options' in parts[1]
    chk.instance(S1, f'install_grammar merges GenericParser.lark_options then grammar_options: {merged_ok}')
    if not merged_ok:
        chk.violation(S1, pm.rel, 'install_grammar', unparse(lark_calls[0]) if lark_calls else 'no Lark call',
                      'the record grammars are not built with GenericParser.lark_options (+ per class overrides)',
                      line=ig.node.lineno, witness='punctuation/keyword tokens are dropped from the tree: str(parse(T)) != T')
    fm = repo.module(f'{NM}.records.factory')
    kr = fm.globals_.get('known_records')
    if not isinstance(kr, ast.Dict):
        raise AnalysisError('factory.known_records is not a dict literal')
    parser_names = sorted({unparse(v.elts[1]) for v in kr.values if isinstance(v, ast.Tuple) and len(v.elts) == 2})
    gdir = G.nonmem_grammar_dir()
    retok = repo.module('pharmpy.internals.parse.ignored')
    alphabet = set()
    for nm in ('WS', 'LF'):
        v = retok.globals_.get(nm)
        if isinstance(v, ast.Set):
            alphabet |= {e.value for e in v.elts if isinstance(e, ast.Constant)}
    rt = retok.functions.get('_tokenize_ignored_characters')
    if rt is None or not alphabet:
        raise AnalysisError('re-tokeniser alphabet not found in ignored.py')
    for n in ast.walk(rt.node):
        if isinstance(n, ast.Compare) and isinstance(n.ops[0], ast.Eq) and isinstance(n.comparators[0], ast.Constant) \
                and isinstance(n.comparators[0].value, str) and len(n.comparators[0].value) == 1:
            alphabet.add(n.comparators[0].value)
    chk.extra['retokeniser_alphabet'] = sorted(repr(a) for a in alphabet)
    for pn in parser_names:
        pc = pm.classes.get(pn)
        if pc is None:
            raise AnalysisError(f'parser class {pn} not found')
        gfile = None
        gopts = {}
        post = ''
        for n in pc.node.body:
            if isinstance(n, ast.Assign):
                t = unparse(n.targets[0])
                if t == 'grammar_filename' and isinstance(n.value, ast.Constant):
                    gfile = n.value.value
                elif t == 'grammar_options':
                    gopts = dict_call_literal(n.value)
                elif t == 'post_process':
                    post = unparse(n.value)
        if gfile is None:
            raise AnalysisError(f'{pn}.grammar_filename not found')
        opts = {**base_opts, **gopts}
        chk.instance(S1, f'{pn}: keep_all_tokens={opts.get("keep_all_tokens")} maybe_placeholders='
                         f'{opts.get("maybe_placeholders")}')
        if opts.get('keep_all_tokens') is not True or opts.get('maybe_placeholders') is not False:
            chk.violation(S1, pm.rel, pn, f'options {opts}',
                          'the parser does not keep all tokens / inserts placeholders', line=pc.node.lineno,
                          witness='a record using this grammar: literal tokens (parentheses, keywords, =) vanish from '
                                  'str(parse(T))')
        text = (gdir / gfile).read_text()
        has_ignore = bool(re.search(r'^\s*%ignore\b', text, flags=re.M))
        has_wit = 'with_ignored_tokens' in post
        chk.instance(S2, f'{pn}: {gfile} %ignore={has_ignore} with_ignored_tokens={has_wit}')
        if has_ignore != has_wit:
            chk.violation(S2, pm.rel, pn, f'{gfile}: %ignore={has_ignore}, post_process={post or "()"}',
                          'ignored tokens are not re-inserted into the tree' if has_ignore else
                          'with_ignored_tokens is applied to a grammar without %ignore', line=pc.node.lineno,
                          witness='a record with a comment, continuation or unusual blanks: they are missing from '
                                  'str(parse(T))')
        if has_ignore and has_wit and not post.rstrip(')').rstrip(',').rstrip().endswith('with_ignored_tokens'):
            chk.violation(S2, pm.rel, pn, f'post_process={post}',
                          'with_ignored_tokens is not the last post-processing step (later steps see/insert nodes '
                          'without the ignored tokens)', line=pc.node.lineno,
                          witness='inserted placeholder tokens shift positions used by the re-tokeniser')
        # S3
        L = G.load_file(gdir / gfile, start=opts.get('start', 'root'), keep_all_tokens=True,
                        propagate_positions=bool(opts.get('propagate_positions', False)))
        tdefs = G.terminal_defs(L)
        for tn in G.ignored(L):
            rx = tdefs[tn].pattern.to_regexp()
            fcs, emp = first_chars(rx)
            ok = fcs is not None and fcs <= alphabet and not emp
            chk.instance(S3, f'{gfile}: %ignore {tn} /{rx}/ first chars {sorted(fcs) if fcs is not None else "any"}')
            if not ok:
                chk.violation(S3, f'src/pharmpy/model/external/nonmem/records/grammars/{gfile}', tn, f'/{rx}/',
                              'an ignored terminal can start with a character the re-tokeniser does not know',
                              witness='text containing that character between two tokens: AssertionError in '
                                      '_tokenize_ignored_characters or a mis-typed token')
                continue
            # tokens starting with ';' or '&' must stop before a line feed; blanks must stay blanks
            if fcs & {';', '&'} and can_contain(rx, {'\n', '\r'}, allow_trailing_newline=True):
                chk.violation(S3, f'src/pharmpy/model/external/nonmem/records/grammars/{gfile}', tn, f'/{rx}/',
                              'a comment/continuation terminal can extend over a line feed, the re-tokeniser stops '
                              'at it', witness='a comment followed by a code line: the following line is swallowed '
                                               'by the lexer but re-tokenised as separate tokens')
            if fcs <= {' ', '\t', '\x00'} and can_contain(rx, set('abcdefghijklmnopqrstuvwxyz0123456789;&')):
                chk.violation(S3, f'src/pharmpy/model/external/nonmem/records/grammars/{gfile}', tn, f'/{rx}/',
                              'a blank terminal can match non-blank characters', witness='text is silently ignored')
            if '\r' in fcs:
                m_lone = re.fullmatch(rx, '\r')
                if m_lone:
                    chk.violation(S3, f'src/pharmpy/model/external/nonmem/records/grammars/{gfile}', tn, f'/{rx}/',
                                  'a lone carriage return is ignored by the grammar but the re-tokeniser asserts '
                                  '\\r\\n', witness='a file with old Mac line ends: AssertionError')

    # ---------------------------------------------------------------- S4
    npm = repo.module(f'{NM}.nmtran_parser')
    pp = npm.classes['NMTranParser'].methods.get('parse')
    if pp is None:
        raise AnalysisError('NMTranParser.parse not found')
    # re.split(PATTERN, text, ...) or COMPILED.split(text) with COMPILED = re.compile(PATTERN, ...) (local or module level)
    def compiled_pattern(e):
        if isinstance(e, ast.Name):
            v = next((n.value for n in walk_no_nested(pp.node) if isinstance(n, ast.Assign)
                      and isinstance(n.targets[0], ast.Name) and n.targets[0].id == e.id), None) or npm.globals_.get(e.id)
            e = v
        if isinstance(e, ast.Call) and dotted(e.func) == 're.compile' and e.args and isinstance(e.args[0], ast.Constant):
            return e.args[0].value
        return None
    splits = []
    for c in calls_in(pp.node):
        if dotted(c.func) == 're.split' and c.args:
            splits.append((c, c.args[0].value if isinstance(c.args[0], ast.Constant) else None))
        elif isinstance(c.func, ast.Attribute) and c.func.attr == 'split' and compiled_pattern(c.func.value) is not None:
            splits.append((c, compiled_pattern(c.func.value)))
    if not splits:
        raise AnalysisError('re.split not found in NMTranParser.parse')
    for c, pat in splits:
        ok = False
        if pat is not None:
            parsed = list(sre_parse.parse(pat))
            body = [x for x in parsed if x[0] is not sre_parse.AT]
            ok = len(body) == 1 and body[0][0] is sre_parse.SUBPATTERN and body[0][1][0] == 1
        chk.instance(S4, f're.split({pat!r}): whole separator captured: {ok}')
        if not ok:
            chk.violation(S4, npm.rel, pp.qualname, unparse(c), 'the record separator is (partly) outside a capturing '
                          'group, so re.split drops it', line=c.lineno,
                          witness='any control stream: "$" or the indentation before it is missing from str(parse(T))')
    joins = [n for n in walk_no_nested(pp.node) if isinstance(n, ast.BinOp) and isinstance(n.op, ast.Add)]
    # the pairs (separator, body) come from zip(x[0::2], x[1::2]) in a for loop or a comprehension
    loops = [n for n in ast.walk(pp.node) if isinstance(n, (ast.For, ast.comprehension)) and 'zip' in unparse(n.iter)]
    ok = False
    for lp in loops:
        tv = [unparse(t) for t in lp.target.elts] if isinstance(lp.target, ast.Tuple) else []
        even_odd = '[0::2]' in unparse(lp.iter) and '[1::2]' in unparse(lp.iter)
        for j in joins:
            if tv and [unparse(j.left), unparse(j.right)] == tv and even_odd:
                ok = True
    chk.instance(S4, f'separator + body re-joined in order: {ok}')
    if not ok:
        chk.violation(S4, npm.rel, pp.qualname, 'separator + s', 'separator and record body are not re-joined in order',
                      line=pp.node.lineno, witness='str(parse(T)) != T for every T')
    guard = [n for n in walk_no_nested(pp.node) if isinstance(n, (ast.If, ast.IfExp))
             and any(isinstance(c, ast.Call) and dotted(c.func) == 'RawRecord' for c in ast.walk(n))]
    if not guard:
        raise AnalysisError('preamble handling (RawRecord(first)) not found')
    for g in guard:
        t = g.test
        plain = isinstance(t, ast.Name) or (isinstance(t, ast.Compare) and not any(isinstance(x, ast.Call) and
                                            not dotted(x.func) == 'len' for x in ast.walk(t)))
        chk.instance(S4, f'preamble kept when `{unparse(t)}`')
        if not plain:
            chk.violation(S4, npm.rel, pp.qualname, f'if {unparse(t)}',
                          'the text before the first record is kept only under a condition on its content',
                          line=g.lineno, witness='a control stream starting with blank lines / a \\r\\n before the first '
                                                 '$: str(parse(T)) != T')
    sr = fm.functions.get('split_raw_record_name')
    if sr is None:
        raise AnalysisError('split_raw_record_name not found')
    mcalls = [c for c in calls_in(sr.node) if dotted(c.func) == 're.match']
    for c in mcalls:
        pat = c.args[0].value if isinstance(c.args[0], ast.Constant) else None
        flags = unparse(c.keywords[0].value) if c.keywords else ''
        ok = False
        if pat is not None:
            parsed = list(sre_parse.parse(pat))
            ok = len(parsed) >= 1 and all(x[0] is sre_parse.SUBPATTERN and x[1][0] for x in parsed)
            last = parsed[-1][1][3] if ok else []
            ok = ok and len(last) == 1 and last[0][0] is sre_parse.MAX_REPEAT and last[0][1][0] == 0 \
                and last[0][1][2][0][0] is sre_parse.ANY and 'DOTALL' in flags
            ngroups = len(parsed)
            used = [unparse(x) for x in ast.walk(sr.node) if isinstance(x, ast.Call) and isinstance(x.func, ast.Attribute)
                    and x.func.attr == 'group']
            ok = ok and any(all(str(i) in u for i in range(1, ngroups + 1)) for u in used)
        chk.instance(S4, f're.match({pat!r}, {flags}): groups cover the whole chunk: {ok}')
        if not ok:
            chk.violation(S4, fm.rel, sr.qualname, unparse(c), 'record name and content groups do not cover the whole '
                          'record text', line=c.lineno,
                          witness='a multi-line record: everything after the first line (or the blanks before $) is lost')

    # ---------------------------------------------------------------- S5
    def str_method(cls):
        return cls.methods.get('__str__')
    targets = [
        (npm.classes['NMTranControlStream'], "''.join(map(str, self.records))"),
        (repo.cls(f'{NM}.records.record.Record'), None),
        (repo.cls(f'{NM}.records.raw_record.RawRecord'), 'self.raw_name + self.content'),
        (repo.cls('pharmpy.internals.parse.generic.AttrTree'), "''.join((str(x) for x in self.children))"),
        (repo.cls('pharmpy.internals.parse.generic.AttrToken'), 'str(self.value)'),
    ]
    for cls, want in targets:
        f = str_method(cls)
        if f is None:
            raise AnalysisError(f'{cls.name}.__str__ not found')
        rets = [n.value for n in walk_no_nested(f.node) if isinstance(n, ast.Return)]
        got = unparse(rets[-1]) if rets else ''
        if cls.name == 'Record':
            good = got in ('self.raw_name + str(self.root)', 'self.raw_name + str(self._root)')
        else:
            good = got == want
        others = [s for s in f.node.body if not isinstance(s, (ast.Return, ast.Assert, ast.Expr))]
        chk.instance(S5, f'{cls.name}.__str__ returns {got}')
        if not good or others or len(rets) != 1:
            chk.violation(S5, cls.module.rel, f'{cls.name}.__str__', got,
                          'printing is not the plain concatenation of all parts', line=f.node.lineno,
                          witness='str(parse(T)) differs from T (stripped, re-formatted or re-ordered text)')
    rec = repo.cls(f'{NM}.records.record.Record')
    for c in repo.all_classes():
        if c.fq != rec.fq and repo.is_subclass(c, rec.fq):
            chk.instance(S5, f'{c.name}: inherits Record.__str__: {"__str__" not in c.methods}')
            if '__str__' in c.methods:
                chk.violation(S5, c.module.rel, c.name, 'def __str__', f'{c.name} overrides Record.__str__',
                              line=c.methods['__str__'].node.lineno,
                              witness=f'a ${c.name.replace("Record", "").upper()} record is printed differently from '
                                      f'its source text')
    # identity semantics of records (replace_records / remove_records select with `in`)
    cs = npm.classes['NMTranControlStream']
    uses_in = [m for m in ('replace_records', 'remove_records') if m in cs.methods and any(
        isinstance(n, ast.Compare) and isinstance(n.ops[0], (ast.In, ast.NotIn)) for n in ast.walk(cs.methods[m].node))]
    raw = repo.cls(f'{NM}.records.raw_record.RawRecord')
    for c in [rec, raw] + [c for c in repo.all_classes() if c.fq != rec.fq and repo.is_subclass(c, rec.fq)]:
        has_eq = '__eq__' in c.methods
        chk.instance(S5, f'{c.name}: identity equality (selected by `in` in {uses_in}): {not has_eq}')
        if has_eq and uses_in:
            chk.violation(S5, c.module.rel, c.name, 'def __eq__',
                          f'{c.name} defines value equality while {uses_in} select the records to drop with `in`',
                          line=c.methods['__eq__'].node.lineno,
                          witness='a control stream with two textually identical records (e.g. a second $PROBLEM '
                                  'repeating $PK): editing the first one also removes the second')

    # ---------------------------------------------------------------- S6
    mm = repo.module(f'{NM}.model')
    us = mm.classes['Model'].methods.get('update_source')
    if us is None:
        raise AnalysisError('nonmem Model.update_source not found')
    # set_ignore_character*: an unmodified `IGNORE=I`/`IGNORE=#` record is rewritten to the header's character
    DESTRUCTIVE = {'remove_ignore', 'remove_accept', 'set_filename', 'update_name_of_tables',
                   'update_initial_individual_estimates', 'set_ignore_character_from_header',
                   'set_ignore_character'}
    # update_source and the function it hands the $DATA block to (if any)
    from rules.C13 import data_update_host
    from sa import reach as _reach
    hosts = [us] + ([h_] if (h_ := data_update_host(repo)) is not us else [])
    found = 0
    us_cfg = CFG(us.node)

    def caller_guards(h_):
        # guards of update_source that dominate every call of the helper h_
        if h_ is us:
            return None
        sites = [n for n in us_cfg.nodes.values() if n.ast is not None and n.kind == 'stmt'
                 and any(isinstance(x, ast.Call) and dotted(x.func).split('.')[-1] == h_.name for x in ast.walk(n.ast))]
        if not sites:
            return None
        out = None
        for st in sites:
            g = []
            for t in [n for n in us_cfg.nodes.values() if n.kind == 'test']:
                if not us_cfg.edge_dominates(t.id, 'true', st.id):
                    continue
                try:
                    tx = unparse(_reach.expand_expr(us_cfg, t.id, t.ast))
                except Exception:
                    tx = unparse(t.ast)
                if 'old_' in tx or 'updated_dataset' in tx:
                    g.append(t)
            out = g if out is None else [t for t in out if t in g]
        return out

    for us_, cfg in [(h_, us_cfg if h_ is us else CFG(h_.node)) for h_ in hosts]:
      tests = [n for n in cfg.nodes.values() if n.kind == 'test']
      outer = caller_guards(us_) or []
      for n in cfg.nodes.values():
          if n.ast is None or n.kind != 'stmt' or isinstance(n.ast, (ast.FunctionDef, ast.ClassDef)):
              continue
          for c in [x for x in ast.walk(n.ast) if isinstance(x, ast.Call)]:
              nm = c.func.attr if isinstance(c.func, ast.Attribute) else dotted(c.func)
              if nm not in DESTRUCTIVE:
                  continue
              found += 1
              def gtxt(t):
                # the test with its local flags resolved (`rewritten` -> `.. or updated_dataset`)
                try:
                    return unparse(_reach.expand_expr(cfg, t.id, t.ast))
                except Exception:
                    return unparse(t.ast)
              guards = [t for t in tests if cfg.edge_dominates(t.id, 'true', n.id)
                        and ('old_' in gtxt(t) or 'updated_dataset' in gtxt(t))] + outer
              chk.instance(S6, f'{nm}(...) guarded by {[g.text()[:60] for g in guards]}')
              if not guards:
                  chk.violation(S6, mm.rel, us.qualname, unparse(c)[:100],
                                f'{nm} runs although nothing differs from the old_* snapshot', line=c.lineno,
                                witness='model.update_source() on an unmodified model whose $DATA has IGNORE/ACCEPT '
                                        'filters or a file name: the regenerated code differs from the source text')
    if found < 4:
        raise AnalysisError(f'S6: only {found} destructive calls found in update_source')

    # ---------------------------------------------------------------- S8 stale length across iterations
    n8 = 0
    for mod in repo.modules.values():
        if not mod.name.startswith(f'{NM}.'):
            continue
        for f in mod.functions.values():
            lens = [n for n in walk_no_nested(f.node) if isinstance(n, ast.Assign) and isinstance(n.targets[0], ast.Name)
                    and isinstance(n.value, ast.Call) and dotted(n.value.func) == 'len' and n.value.args
                    and isinstance(n.value.args[0], ast.Name)]
            for d in lens:
                v, lst = d.targets[0].id, d.value.args[0].id
                for lp in [x for x in walk_no_nested(f.node) if isinstance(x, (ast.For, ast.While))]:
                    body_nodes = [y for s in lp.body for y in ast.walk(s)]
                    mut = any(isinstance(y, ast.Call) and isinstance(y.func, ast.Attribute)
                              and y.func.attr in ('extend', 'append', 'insert') and isinstance(y.func.value, ast.Name)
                              and y.func.value.id == lst for y in body_nodes)
                    use = any(isinstance(y, ast.Name) and y.id == v and isinstance(y.ctx, ast.Load) for y in body_nodes)
                    redef = any(y is d for y in body_nodes) or any(
                        isinstance(y, ast.Assign) and isinstance(y.targets[0], ast.Name) and y.targets[0].id == v
                        for y in body_nodes)
                    if mut and use:
                        n8 += 1
                        # the definition must be re-evaluated inside the innermost loop that both mutates and uses
                        inner = [x for x in body_nodes if isinstance(x, (ast.For, ast.While))]
                        inner_bad = False
                        for il in inner:
                            ib = [y for s in il.body for y in ast.walk(s)]
                            imut = any(isinstance(y, ast.Call) and isinstance(y.func, ast.Attribute)
                                       and y.func.attr in ('extend', 'append', 'insert')
                                       and isinstance(y.func.value, ast.Name) and y.func.value.id == lst for y in ib)
                            iuse = any(isinstance(y, ast.Name) and y.id == v and isinstance(y.ctx, ast.Load) for y in ib)
                            iredef = any(isinstance(y, ast.Assign) and isinstance(y.targets[0], ast.Name)
                                         and y.targets[0].id == v for y in ib)
                            if imut and iuse and not iredef:
                                inner_bad = True
                        chk.instance(S8, f'{f.qualname}: {v} = len({lst}) used in a loop that extends {lst} '
                                         f'(re-evaluated per iteration: {redef and not inner_bad})')
                        if not redef or inner_bad:
                            chk.violation(S8, mod.rel, f.qualname, f'{unparse(d)} reused while {lst} grows',
                                          f'`{v}` is computed once but `{lst}` is extended between its uses: recorded '
                                          f'positions are stale from the second iteration on', line=d.lineno,
                                          witness='regenerate two statements of one IF block, then edit the same record '
                                                  'again: the stale statement->node index copies the first node for '
                                                  'every sibling, duplicating unrelated lines')
    if n8 == 0:
        raise AnalysisError('S8: no len()-position bookkeeping found (CodeRecord.update_statements moved?)')
    run_more(chk, repo)


def run_more(chk, repo):
    from sa.cfg import CFG
    S9 = chk.rule('S9', 'statement index entries (pos, pos + n) describe exactly the nodes appended next: no other growth of '
                        'the node list between taking the position and appending them, and n is their count', floor=2)
    S10 = chk.rule('S10', 'record objects are created fresh on every call (records are replaced/removed by identity): the '
                          'factory and constructors are not memoised', floor=3)
    crm = repo.module(f'{NM}.records.code_record')
    cr = crm.classes.get('CodeRecord')
    us = cr.methods.get('update_statements') if cr else None
    if us is None:
        raise AnalysisError('CodeRecord.update_statements not found')
    cfg = CFG(us.node)
    defs = {n.targets[0].id: n.value for n in walk_no_nested(us.node) if isinstance(n, ast.Assign)
            and len(n.targets) == 1 and isinstance(n.targets[0], ast.Name)}
    pos_nodes = [n for n in cfg.nodes.values() if n.kind == 'stmt' and isinstance(n.ast, ast.Assign)
                 and isinstance(n.ast.value, ast.Call) and dotted(n.ast.value.func) == 'len'
                 and isinstance(n.ast.targets[0], ast.Name) and isinstance(n.ast.value.args[0], ast.Name)]
    n9 = 0
    for p in pos_nodes:
        pv, lst = p.ast.targets[0].id, p.ast.value.args[0].id

        def grows(nd):
            a = nd.ast
            return nd.kind == 'stmt' and isinstance(a, ast.Expr) and isinstance(a.value, ast.Call) \
                and isinstance(a.value.func, ast.Attribute) and a.value.func.attr in ('extend', 'append') \
                and unparse(a.value.func.value) == lst
        growth = {n.id for n in cfg.nodes.values() if grows(n)}
        first = set()
        for s_ in cfg.g.successors(p.id):
            if s_ in growth:
                first.add(s_)
            else:
                reach = cfg.reachable(s_, avoid=growth | {p.id})
                for r in reach:
                    for s2 in cfg.g.successors(r):
                        if s2 in growth:
                            first.add(s2)
        # the index tuple that uses this position
        tuples = [t for n in cfg.nodes.values() if n.kind == 'stmt' and n.ast is not None
                  for c in ast.walk(n.ast) if isinstance(c, ast.Call) and isinstance(c.func, ast.Attribute)
                  and c.func.attr == 'append' and c.args and isinstance(c.args[0], ast.Tuple)
                  for t in [c.args[0]] if len(t.elts) >= 2 and unparse(t.elts[0]) == pv
                  and p.id in {x for x in cfg.nodes if n.id in cfg.reachable(x, avoid=set())} and n.id in cfg.reachable(p.id, avoid={q.id for q in pos_nodes if q is not p})]
        if not tuples or not first:
            continue
        for t in tuples:
            second = t.elts[1]
            if not (isinstance(second, ast.BinOp) and isinstance(second.op, ast.Add) and unparse(second.left) == pv):
                raise AnalysisError(f'S9: index tuple {unparse(t)} not of the form (pos, pos + n, ...)')
            n_expr = second.right
            if isinstance(n_expr, ast.Name) and n_expr.id in defs and not isinstance(defs[n_expr.id], ast.Call):
                n_expr = defs[n_expr.id]
            for g in sorted(first):
                gnode = cfg.nodes[g]
                x = gnode.ast.value.args[0]
                if isinstance(x, ast.Subscript) and isinstance(x.slice, ast.Slice) and x.slice.lower is not None \
                        and x.slice.upper is not None:
                    want = f'{unparse(x.slice.upper)} - {unparse(x.slice.lower)}'
                elif isinstance(x, ast.Name):
                    want = f'len({x.id})'
                else:
                    raise AnalysisError(f'S9: growth argument {unparse(x)} not recognised')
                ok = unparse(n_expr) == want
                n9 += 1
                chk.instance(S9, f'{pv} = len({lst}); index ({pv}, {pv} + {unparse(n_expr)}); next growth '
                                 f'`{gnode.text()[:60]}` adds {want} node(s): {ok}')
                if not ok:
                    chk.violation(S9, crm.rel, us.qualname, f'{p.text()} ... {gnode.text()[:70]}',
                                  f'the recorded node range starts at `{pv}` and has {unparse(n_expr)} nodes, but the next nodes '
                                  f'appended after taking `{pv}` are {unparse(x)} ({want}): the index points at other nodes than '
                                  f'the statement\'s', line=p.line,
                                  witness='edit a statement once, then edit the following statement that is preceded by a comment '
                                          'or blank line: the comment is deleted and the old statement stays next to the new one')
    if n9 < 2:
        raise AnalysisError(f'S9: only {n9} index entries recognised in update_statements')
    # S10
    fm = repo.module(f'{NM}.records.factory')
    MEMO = ('lru_cache', 'cache', 'cached', 'memoize', 'cached_property')
    targets = [('create_record', fm.functions.get('create_record'), fm)]
    rm = repo.module(f'{NM}.records.record')
    rc = rm.classes.get('Record')
    if rc is not None:
        for name in ('__init__', '__new__'):
            if name in rc.methods:
                targets.append((f'Record.{name}', rc.methods[name], rm))
    npm = repo.module(f'{NM}.nmtran_parser')
    for name, f in npm.functions.items():
        if 'record' in name.lower():
            targets.append((name, f, npm))
    for cls in npm.classes.values():
        for name, f in cls.methods.items():
            if name in ('parse', '_parse', 'parse_records'):
                targets.append((f'{cls.name}.{name}', f, npm))
    for label, f, mod in targets:
        if f is None:
            raise AnalysisError(f'S10: {label} not found')
        decs = [unparse(d) for d in f.node.decorator_list]
        memo = [d for d in decs if any(m in d for m in MEMO)]
        chk.instance(S10, f'{label}: decorators {decs}')
        if memo:
            chk.violation(S10, mod.rel, label, ', '.join(memo),
                          'equal record text yields the same object; replace_records/remove_records select records by identity, '
                          'so editing one record also replaces or removes every other record with the same text',
                          line=f.node.lineno,
                          witness='a control stream with two $PROBLEMs that repeat the same $PRED: editing a statement of the '
                                  'first removes the second problem\'s $PRED')
    run_s11_s12(chk, repo)


def run_s11_s12(chk, repo):
    """S11: re-created ignored tokens carry the source text; S12: the parameter cursor of ThetaRecord.update advances by the
    repeat count of each theta"""
    from sa import reach
    from sa.cfg import CFG
    S11 = chk.rule('S11', 'tokens re-created for ignored characters take their text from the source slice [start_pos:end_pos]',
                   floor=1)
    im = repo.module('pharmpy.internals.parse.ignored')
    f = im.functions.get('_tokenize_ignored_characters')
    if f is None:
        raise AnalysisError('_tokenize_ignored_characters not found')
    src = f.params[0]
    cfg = CFG(f.node)
    n = 0
    for c in [x for x in ast.walk(f.node) if isinstance(x, ast.Call) and dotted(x.func) == 'Token' and len(x.args) >= 2]:
        kws = {k.arg: k.value for k in c.keywords}
        if 'start_pos' not in kws or 'end_pos' not in kws:
            continue
        n += 1
        nid = reach.node_containing(cfg, c)
        val = reach.expand_expr(cfg, nid, c.args[1]) if nid is not None else c.args[1]
        ok = isinstance(val, ast.Subscript) and unparse(val.value) == src and isinstance(val.slice, ast.Slice) \
            and val.slice.lower is not None and val.slice.upper is not None \
            and unparse(val.slice.lower) == unparse(kws['start_pos']) and unparse(val.slice.upper) == unparse(kws['end_pos'])
        chk.instance(S11, f'{unparse(c)[:80]}: text is {src}[start_pos:end_pos]: {ok}')
        if not ok:
            chk.violation(S11, im.rel, f.name, unparse(c)[:100],
                          'the token text is not the slice of the source it stands for: printing the tree does not reproduce '
                          'the input', line=c.lineno,
                          witness='a control stream with CR LF line ends (or tabs / several blanks) between the items of a '
                                  '$THETA or option record: str(parse(T)) != T')
    if n == 0:
        raise AnalysisError('S11: no Token(...) with positions found in _tokenize_ignored_characters')
    from rules.C04b import theta_cursor
    S12 = chk.rule('S12', 'ThetaRecord.update: the parameter cursor advances by the repeat count (value)xN of each theta', floor=1)
    theta_cursor(chk, S12, repo)
    # the writer of $OMEGA / $THETA is shared with C04: its scale-conversion order, classification of old parameters and
    # comment handling decide what an unedited model looks like after update_source as well
    from rules.C04b import run_p13_p15, run_p16
    run_p13_p15(chk, repo)
    run_p16(chk, repo)
    run_s13(chk, repo)
    from rules.C01b import run_theta_sentinels
    run_theta_sentinels(chk, repo, 'S14')
    run_s15(chk, repo)
    run_s16(chk, repo)
    run_s17(chk, repo)
    run_s18(chk, repo)
    run_s19(chk, repo)


def run_s13(chk, repo):
    """update_name_of_tables renames the $TABLE files one record at a time: replace_records puts all new records at the place
    of the first old one, so replacing several non-adjacent records in one call reorders the control stream"""
    S13 = chk.rule('S13', 'update_name_of_tables: each renamed $TABLE record is replaced on its own (one old record, one new '
                          'record per replace_records call)', floor=1)
    um = repo.module('pharmpy.model.external.nonmem.update')
    f = um.functions.get('update_name_of_tables')
    ps = repo.module('pharmpy.model.external.nonmem.nmtran_parser')
    rr = ps.classes.get('NMTranControlStream').methods.get('replace_records') if ps.classes.get('NMTranControlStream') else None
    if f is None or rr is None:
        raise AnalysisError('update_name_of_tables / NMTranControlStream.replace_records not found')
    # does replace_records still gather the new records at one position? (a flag that is cleared after the first insertion)
    gathers = any(isinstance(a, ast.Assign) and isinstance(a.value, ast.Constant) and a.value.value is False
                  for a in ast.walk(rr.node))
    calls = [c for c in calls_in(f.node) if isinstance(c.func, ast.Attribute) and c.func.attr == 'replace_records' and c.args]
    if not calls:
        raise AnalysisError('S13: replace_records is not called from update_name_of_tables')
    for c in calls:
        single = isinstance(c.args[0], (ast.List, ast.Tuple)) and len(c.args[0].elts) == 1
        chk.instance(S13, f'update_name_of_tables: `{unparse(c)[:70]}` replaces one record: {single} '
                          f'(replace_records gathers at the first position: {gathers})')
        if gathers and not single:
            chk.violation(S13, um.rel, f.name, unparse(c)[:90],
                          'several $TABLE records are replaced in one call: they are all moved to the position of the first',
                          line=c.lineno,
                          witness='$TABLE FILE=sdtab1, $TABLE FILE=cotab, $COVARIANCE, $TABLE FILE=patab1 and a model renamed to '
                                  'run7: the record order changes and a comment ends up in front of another record')


def run_s15(chk, repo):
    """S15: the two pieces split_raw_record_name() cuts a chunk into are handed to the record unchanged: raw_name + content is
    the text of the chunk. A normalised copy (strip / upper / replace) may be used to *classify* the record, but what reaches
    the constructor as raw name and as content is the split result itself"""
    from sa.cfg import CFG
    from sa import reach
    S15 = chk.rule('S15', 'create_record: the raw name and the content given to the record constructors are the unmodified '
                          'result of the split', floor=2)
    fm = repo.module(f'{NM}.records.factory')
    f = fm.functions.get('create_record')
    if f is None:
        raise AnalysisError('S15: create_record not found')
    cfg = CFG(f.node)
    split = [n for n in cfg.nodes.values() if isinstance(n.ast, ast.Assign) and isinstance(n.ast.value, ast.Call)
             and (dotted(n.ast.value.func) or '').endswith('split_raw_record_name')
             and isinstance(n.ast.targets[0], ast.Tuple) and len(n.ast.targets[0].elts) == 2]
    if not split:
        raise AnalysisError('S15: `raw_name, content = split_raw_record_name(chunk)` not found')
    rn, ct = (e.id for e in split[0].ast.targets[0].elts)
    n = 0
    for nd in cfg.nodes.values():
        if nd.ast is None or nd.kind not in ('stmt', 'return'):
            continue
        for c in [c for c in ast.walk(nd.ast) if isinstance(c, ast.Call)]:
            d = dotted(c.func) or ''
            if not (d.endswith('Record') or d in ('record_class',) or d.endswith('_class')) or d.endswith('parser_class'):
                continue
            for a in c.args:
                if isinstance(a, ast.Name) and a.id in (rn, ct):
                    n += 1
                    defs = reach.values(cfg, nd.id, a.id) or []
                    bad = [v for _nid, v in defs if not (isinstance(v, ast.Call) and (dotted(v.func) or '').endswith(
                        'split_raw_record_name')) and not (isinstance(v, ast.Subscript) and isinstance(v.value, ast.Call))]
                    # reach.values gives the right-hand side; for the tuple assignment that is the split call itself
                    bad = [v for v in bad if not (isinstance(v, ast.Name) and v.id in (rn, ct))]
                    chk.instance(S15, f'{d}(.. {a.id} ..): split result unchanged: {not bad}')
                    for v in bad:
                        chk.violation(S15, fm.rel, f.qualname, f'{a.id} = {unparse(v)[:60]} ... {d}(..{a.id}..)',
                                      'the record is built from a modified copy of the split result: str(record) no longer '
                                      'reproduces the chunk', line=getattr(v, 'lineno', nd.line),
                                      witness='an indented record of a kind pharmpy does not know (`  $WARNINGS NONE`): the '
                                              'indentation is lost on a no-op round trip')
    if n < 2:
        raise AnalysisError(f'S15: only {n} constructor arguments traced in create_record')


def run_s16(chk, repo):
    """S16: the index of a code record maps node ranges to statement ranges; update_statements consumes one entry per group of
    old statements and assumes every entry covers at least one statement. An entry whose statement range can be empty
    (len(s) - len(symbols) .. len(s) with no symbol assigned in the block) is taken for the NEXT statement: its nodes are
    deleted / kept in place of that statement's. Every entry appended in _parse_tree must be non-empty on every path"""
    from sa.cfg import CFG
    from sa import reach
    S16 = chk.rule('S16', 'code record: every index entry appended by _parse_tree covers at least one statement (a range '
                          'len(s) - len(X) .. len(s) only under a test that X is not empty)', floor=3)
    cm = repo.module(f'{NM}.records.code_record')
    f = cm.functions.get('_parse_tree')
    if f is None:
        raise AnalysisError('S16: _parse_tree not found')
    cfg = CFG(f.node)
    n = 0
    for nd in cfg.nodes.values():
        if nd.ast is None or nd.kind != 'stmt':
            continue
        for c in [c for c in ast.walk(nd.ast) if isinstance(c, ast.Call) and isinstance(c.func, ast.Attribute)
                  and c.func.attr == 'append' and c.args]:
            t = c.args[0]
            if isinstance(t, ast.Name):
                vs = reach.values(cfg, nd.id, t.id) or []
                t = vs[0][1] if len(vs) == 1 else t
            if not (isinstance(t, ast.Tuple) and len(t.elts) == 4):
                continue
            lo, hi = t.elts[2], t.elts[3]
            n += 1
            width = None
            if isinstance(lo, ast.BinOp) and isinstance(lo.op, ast.Sub) and unparse(lo.left) == unparse(hi):
                width = lo.right
            if width is None:
                chk.instance(S16, f'index entry {unparse(t)[:60]}: width not of the form hi - w .. hi (not decided)')
                continue
            if isinstance(width, ast.Constant) and isinstance(width.value, int):
                ok, why = width.value >= 1, f'constant width {width.value}'
            else:
                inner = width.args[0] if isinstance(width, ast.Call) and dotted(width.func) == 'len' and width.args else width
                x = unparse(inner)
                ok = False
                for tst in [q for q in cfg.nodes.values() if q.kind == 'test']:
                    tx = unparse(tst.ast)
                    pos = tx in (x, f'len({x})', f'len({x}) > 0', f'len({x}) >= 1', f'len({x}) != 0', f'{x} != set()')
                    neg = tx in (f'not {x}', f'len({x}) == 0', f'not len({x})')
                    if (pos and cfg.edge_dominates(tst.id, 'true', nd.id)) or (neg and cfg.edge_dominates(tst.id, 'false', nd.id)):
                        ok = True
                why = f'width len({x}) under a non-emptiness test: {ok}'
            chk.instance(S16, f'index entry {unparse(t)[:60]}: {why}')
            if not ok:
                chk.violation(S16, cm.rel, f.qualname, f'append({unparse(t)[:70]})',
                              'the statement range of this entry is empty when the block assigns nothing: update_statements '
                              'hands the entry to the next statement', line=c.lineno,
                              witness='IF (TIME.LT.0) THEN / EXIT 1 100 / END IF followed by V = THETA(2); replacing the '
                                      'statement V deletes the IF block and keeps the old V line after the new one')
    if n < 3:
        raise AnalysisError(f'S16: only {n} index entries found in _parse_tree')


def run_s17(chk, repo):
    """S17: like S6, for the $ABBR records: the updater may drop records of the control stream only when what they express
    changed. update_abbr_record is called on every update_source(); a replace_all(<kind>, <filtered subset>) that no test
    against the old state guards removes records of an unmodified model"""
    from sa.cfg import CFG
    S17 = chk.rule('S17', 'update_abbr_record: records are dropped from the control stream (replace_all with a filtered list) only '
                          'under a test that the names they define changed', floor=1)
    um = repo.module(f'{NM}.update')
    f = um.functions.get('update_abbr_record')
    if f is None:
        raise AnalysisError('S17: update_abbr_record not found')
    cfg = CFG(f.node)
    n = 0
    for nd in cfg.nodes.values():
        if nd.ast is None or nd.kind != 'stmt':
            continue
        for c in [c for c in ast.walk(nd.ast) if isinstance(c, ast.Call) and isinstance(c.func, ast.Attribute)
                  and c.func.attr in ('replace_all', 'remove_records') and c.args]:
            n += 1
            guards = [t for t in cfg.nodes.values() if t.kind == 'test' and (
                cfg.edge_dominates(t.id, 'true', nd.id) or cfg.edge_dominates(t.id, 'false', nd.id))
                and ('old_' in unparse(t.ast) or 'rv_trans' in unparse(t.ast))]
            chk.instance(S17, f'update_abbr_record: {unparse(c)[:60]} guarded by {[g.text()[:40] for g in guards]}')
            if not guards:
                chk.violation(S17, um.rel, f.qualname, unparse(c)[:80],
                              'the $ABBR records are filtered and replaced on every update, also when nothing changed: REPLACE '
                              'records of thetas are dropped, those of etas are re-created under other names, while the code '
                              'that uses them is kept', line=c.lineno,
                              witness='$ABBR REPLACE THETA(CL)=THETA(1) and CL = THETA(CL)*EXP(ETA(CL)): model.update_source() '
                                      'writes a control stream without the THETA(CL) abbreviation')
    if n == 0:
        raise AnalysisError('S17: no record replacement found in update_abbr_record')


def run_s18(chk, repo):
    """S18: the methods of NMTranControlStream that pick records by their kind (`rec.name == name` in a loop over the records)
    agree on what "the records of kind X" are: those of the first $PROBLEM (get_records counts the PROBLEM records). A sibling
    that selects by kind without looking at the PROBLEM records acts on every problem of the control stream"""
    S18 = chk.rule('S18', 'NMTranControlStream: every method that selects records by kind in a loop over all records also looks at '
                          'the $PROBLEM boundaries (as get_records does)', floor=2)
    pm = repo.module(f'{NM}.nmtran_parser')
    cls = pm.classes.get('NMTranControlStream')
    if cls is None or 'get_records' not in cls.methods:
        raise AnalysisError('S18: NMTranControlStream.get_records not found')
    n = 0
    for f in cls.methods.values():
        params = set(f.all_params) - {'self'}
        loops = [L for L in ast.walk(f.node) if isinstance(L, ast.For) and 'records' in unparse(L.iter)]
        sel = [c for L in loops for c in ast.walk(L) if isinstance(c, ast.Compare) and len(c.ops) == 1
               and isinstance(c.ops[0], (ast.Eq, ast.NotEq)) and isinstance(c.left, ast.Attribute) and c.left.attr == 'name'
               and isinstance(c.comparators[0], ast.Name) and c.comparators[0].id in params]
        if not sel:
            continue
        n += 1
        scoped = any(isinstance(c, ast.Compare) and isinstance(c.left, ast.Attribute) and c.left.attr == 'name'
                     and isinstance(c.comparators[0], ast.Constant) and c.comparators[0].value == 'PROBLEM'
                     for L in loops for c in ast.walk(L))
        chk.instance(S18, f'{f.qualname}: selects by `{unparse(sel[0])}`; looks at the PROBLEM records: {scoped}')
        if not scoped:
            chk.violation(S18, pm.rel, f.qualname, unparse(sel[0]),
                          'records of that kind are selected in every $PROBLEM of the control stream, while the records handed in '
                          'come from get_records(), i.e. from the first problem only', line=sel[0].lineno,
                          witness='two $PROBLEMs, each with $THETA / $OMEGA / $SIGMA: update_source() of the unmodified model '
                                  'deletes those records of the second problem')
    if n < 2:
        raise AnalysisError(f'S18: only {n} record-selecting methods found in NMTranControlStream')


def run_s19(chk, repo):
    """S19: a NEWLINE token of a record may end a `; comment`; the option-editing methods of OptionRecord (remove_option,
    remove_nth_option, ..) may drop the blanks in front of the option they remove but never a NEWLINE: every removal (pop /
    del / skip) in those methods that is conditioned on a token rule is conditioned on 'WS' only."""
    S19 = chk.rule('S19', 'OptionRecord editors: layout tokens removed together with an option are WS only, never NEWLINE '
                          '(it may terminate a comment)', floor=1)
    m = repo.module('pharmpy.model.external.nonmem.records.option_record')
    c = m.classes.get('OptionRecord')
    if c is None:
        raise AnalysisError('S19: OptionRecord not found')
    n = 0
    for mn, f in c.methods.items():
        if not mn.startswith(('remove', 'replace', 'set_')):
            continue
        for I in [x for x in ast.walk(f.node) if isinstance(x, ast.If)]:
            words = {k.value for k in ast.walk(I.test) if isinstance(k, ast.Constant) and isinstance(k.value, str)}
            if not (words & {'WS', 'NEWLINE'}) or not any(isinstance(a, ast.Attribute) and a.attr == 'rule' for a in ast.walk(I.test)):
                continue
            removes = [x for s in I.body for x in ast.walk(s)
                       if (isinstance(x, ast.Call) and isinstance(x.func, ast.Attribute) and x.func.attr in ('pop', 'remove'))
                       or isinstance(x, (ast.Delete, ast.Continue))]
            # statements of nested ifs are judged with the nested test
            own = [x for x in removes if not any(isinstance(s2, ast.If) and any(x is y for y in ast.walk(s2))
                                                 for s in I.body for s2 in ast.walk(s) if s2 is not I)]
            if not own:
                continue
            n += 1
            ok = 'NEWLINE' not in words
            chk.instance(S19, f'{f.qualname}: if {unparse(I.test)[:50]}: removes a token: only WS: {ok}')
            if not ok:
                chk.violation(S19, m.rel, f.qualname, f'if {unparse(I.test)[:60]}: {unparse(own[0])[:30]}',
                              'a NEWLINE in front of the removed option is dropped: when the previous line ends with a '
                              '`; comment` the rest of the record becomes part of the comment', line=I.lineno,
                              witness='$TABLE ID TIME DV ; comment\\n       CIPREDI MDV + remove_option(CIPREDI): MDV ends up '
                                      'inside the comment')
    if n == 0:
        raise AnalysisError('S19: no WS removal found in the option editors of OptionRecord')
