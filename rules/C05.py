"""C05 Compartmental graph and its equations agree: O1 single ordering source, O2 matrix index roles,
O3 builder discipline / graph ownership, O4 serialisation agreement, O5 no set-order leak, O6 subs is total,
O7 no use of a replaced (stale) compartment in a graph-structure operation."""
from __future__ import annotations

import ast

from sa.cfg import CFG
from sa.classes import written_keys, read_keys
from sa.report import AnalysisError
from sa.srcmodel import is_real_copy, unparse, walk_no_nested, calls_in, owner_class, dotted

MOD = 'pharmpy.model.statements'
REPLACERS = {'set_lag_time', 'set_bioavailability', 'set_input', 'set_dose', 'add_dose', 'remove_dose', 'move_dose'}
STRUCT_OPS = {'add_flow', 'remove_flow', 'remove_compartment'}
GRAPH_MUT = {'add_node', 'add_edge', 'remove_node', 'remove_edge', 'add_nodes_from', 'add_edges_from',
             'remove_nodes_from', 'remove_edges_from', 'clear', 'update'}


def names(node):
    return {n.id for n in ast.walk(node) if isinstance(n, ast.Name)}


def set_typed_names(fn) -> set[str]:
    """locals bound to set-valued expressions: {..}, set(..), _comps(..), set algebra of set-typed names"""
    out = set()

    def is_set(e):
        if isinstance(e, (ast.Set, ast.SetComp)):
            return True
        if isinstance(e, ast.Call) and dotted(e.func) in ('set', 'frozenset', '_comps'):
            return True
        if isinstance(e, ast.Name) and e.id in out:
            return True
        if isinstance(e, ast.BinOp) and isinstance(e.op, (ast.Sub, ast.BitOr, ast.BitAnd, ast.BitXor)):
            return is_set(e.left) or is_set(e.right)
        if isinstance(e, ast.Call) and isinstance(e.func, ast.Attribute) \
                and e.func.attr in ('union', 'intersection', 'difference', 'symmetric_difference') \
                and is_set(e.func.value):
            return True
        return False
    changed = True
    while changed:
        changed = False
        for n in walk_no_nested(fn):
            if isinstance(n, ast.Assign) and len(n.targets) == 1 and isinstance(n.targets[0], ast.Name):
                if is_set(n.value) and n.targets[0].id not in out:
                    out.add(n.targets[0].id)
                    changed = True
    return out, is_set


def run(chk, repo, tier):
    m = repo.module(MOD)
    rel = m.rel
    cs = m.classes.get('CompartmentalSystem')
    cbc = m.classes.get('CompartmentalSystemBuilder')
    if cs is None or cbc is None:
        raise AnalysisError('CompartmentalSystem / CompartmentalSystemBuilder not found')
    chk.explanation = (
        'Decides structural clauses: all ordered accessors draw their order from the one ordering routine and eqs '
        'combines them as M @ amounts + inputs (O1); the matrix store puts get_flow(src, dst) at [dst, src] and the '
        'diagonal is minus outflows minus output (O2, def-use of index variables); builder edits replace nodes '
        'edge-preservingly via relabel_nodes(copy=False), the system stores a frozen copy, nobody else writes the '
        'graph (O3); to_dict/from_dict keys agree and edge indices refer to the serialised list (O4); no set order '
        'leaks into ordered results (O5); subs visits every rate and compartment (O6); a compartment object replaced '
        'by a builder call is never used again in add_flow/remove_flow (O7, typestate over the whole package). NOT '
        'decided: correctness of _order_compartments itself, to_compartmental_system term matching, symbolic mass '
        'balance for arbitrary rates.')
    O1 = chk.rule('O1', 'ordered accessors use _order_compartments(); eqs = compartmental_matrix @ amounts + '
                        'zero_order_inputs', floor=5)
    O2 = chk.rule('O2', 'compartmental_matrix: f[dst, src] = get_flow(src, dst); diagonal = -(sum of outflows) - '
                        'output flow', floor=2)
    O3 = chk.rule('O3', 'builder replaces compartments by relabel_nodes(copy=False) with {old: new}; system stores '
                        'nx.freeze(copy); graph written only by the builder', floor=10)
    O4 = chk.rule('O4', 'to_dict/from_dict key agreement for the system classes; edge indices refer to the '
                        'serialised compartment list', floor=5)
    O5 = chk.rule('O5', 'no list/tuple/iteration over a set-valued expression outside sorted() in '
                        'CompartmentalSystem', floor=5)
    O6 = chk.rule('O6', 'CompartmentalSystem.subs substitutes in every rate and every compartment (no filter)',
                  floor=2)
    O7 = chk.rule('O7', 'a compartment variable passed to a replacing builder call is not used afterwards in '
                        'add_flow/remove_flow/remove_compartment without rebinding', floor=40)
    O8 = chk.rule('O8', 'no read of a named CompartmentalSystem copy after its builder was mutated (stale snapshot), '
                        'all functions', floor=5)
    from sa import snapshot
    snapshot.run_rule(chk, O8, repo)
    run_o9_o10(chk, repo)
    O11 = chk.rule('O11', 'system classes: fields compared by __eq__ are serialised through the same (raw) view', floor=5)
    from rules.C12 import check_h2
    spairs = [c for c in repo.all_classes() if c.module.name == 'pharmpy.model.statements'
              and 'to_dict' in c.methods and 'from_dict' in c.methods]
    check_h2(chk, O11, repo, spairs)
    run_o12_o13(chk, repo)
    run_o14(chk, repo)
    run_o15(chk, repo)
    run_o16(chk, repo)
    from rules.C10 import run_d1
    run_d1(chk, repo, chk.rule('D1', 'symbol accessors (free_symbols, subs) cover every expression field through the matching '
                                     'accessor', floor=10))

    # ---------------------------------------------------------------- O1
    for acc in ('amounts', 'compartment_names', 'compartmental_matrix', 'zero_order_inputs'):
        f = cs.methods.get(acc)
        if f is None:
            raise AnalysisError(f'CompartmentalSystem.{acc} not found')
        src = [n for n in walk_no_nested(f.node)]
        uses_order = any(isinstance(n, ast.Call) and isinstance(n.func, ast.Attribute)
                         and n.func.attr == '_order_compartments' for n in src)
        leaks = [n for n in src if (isinstance(n, ast.Attribute) and n.attr in ('nodes', 'edges', 'adj', 'succ', 'pred')
                                    and '_g' in unparse(n.value))
                 or (isinstance(n, ast.Call) and dotted(n.func) in ('_comps', 'set'))]
        chk.instance(O1, f'{acc}: uses _order_compartments={uses_order}, other enumerations={len(leaks)}')
        if not uses_order or leaks:
            chk.violation(O1, rel, f.qualname, unparse(leaks[0]) if leaks else 'no call to _order_compartments()',
                          f'{acc} does not take its compartment order (only) from _order_compartments()',
                          line=f.node.lineno,
                          witness='an asymmetric 3-compartment system (dose in the middle compartment): the order of '
                                  f'{acc} differs from the order of the other accessors, so eqs pairs rates with the '
                                  f'wrong amounts')
    eqs = cs.methods.get('eqs')
    if eqs is None:
        raise AnalysisError('CompartmentalSystem.eqs not found')
    binds = {}
    for n in walk_no_nested(eqs.node):
        if isinstance(n, ast.Assign) and isinstance(n.targets[0], ast.Name):
            binds[n.targets[0].id] = n.value

    def origin(e, depth=0):
        """set of self.<accessor> names an expression derives from"""
        out = set()
        for x in ast.walk(e):
            if isinstance(x, ast.Attribute) and isinstance(x.value, ast.Name) and x.value.id == 'self':
                out.add(x.attr)
            if isinstance(x, ast.Name) and x.id in binds and depth < 4:
                out |= origin(binds[x.id], depth + 1)
        return out
    ok = False
    for n in walk_no_nested(eqs.node):
        if isinstance(n, ast.BinOp) and isinstance(n.op, ast.Add):
            for mm, inp in ((n.left, n.right), (n.right, n.left)):
                if isinstance(mm, ast.BinOp) and isinstance(mm.op, ast.MatMult):
                    if origin(mm.left) == {'compartmental_matrix'} and origin(mm.right) == {'amounts'} \
                            and origin(inp) == {'zero_order_inputs'}:
                        ok = True
    chk.instance(O1, f'eqs: compartmental_matrix @ amounts + zero_order_inputs found={ok}')
    if not ok:
        chk.violation(O1, rel, eqs.qualname, 'rhs of the equations',
                      'eqs is not built as compartmental_matrix @ amounts + zero_order_inputs', line=eqs.node.lineno,
                      witness='any system with a zero-order input or two compartments: the reported equations are '
                              'not M*A + u')
    # derivative lhs: derivative of the same amounts w.r.t. self.t, zipped positionally
    zips = [c for c in calls_in(eqs.node) if dotted(c.func) == 'zip']
    chk.instance(O1, f'eqs: lhs/rhs zipped positionally ({len(zips)} zip)')
    if not zips:
        chk.violation(O1, rel, eqs.qualname, 'no zip(derivatives, rhs)', 'lhs and rhs of eqs are not paired positionally',
                      line=eqs.node.lineno, witness='equations pair a derivative with the rhs of another compartment')

    # ---------------------------------------------------------------- O2
    cm = cs.methods['compartmental_matrix']
    idx_of = {}      # comp var -> index var   (from_comp = nodes[i])
    for n in walk_no_nested(cm.node):
        if isinstance(n, ast.Assign) and isinstance(n.targets[0], ast.Name) and isinstance(n.value, ast.Subscript) \
                and isinstance(n.value.slice, ast.Name):
            idx_of[n.targets[0].id] = n.value.slice.id
        # for i, from_comp in enumerate(nodes): the same pairing of a compartment variable with its index variable
        if isinstance(n, ast.For) and isinstance(n.target, ast.Tuple) and len(n.target.elts) == 2 \
                and all(isinstance(e, ast.Name) for e in n.target.elts) and isinstance(n.iter, ast.Call) \
                and dotted(n.iter.func) == 'enumerate' and len(n.iter.args) == 1:
            idx_of[n.target.elts[1].id] = n.target.elts[0].id
    flows = {}       # rate var -> (src var, dst var)
    for n in walk_no_nested(cm.node):
        if isinstance(n, ast.Assign) and isinstance(n.targets[0], ast.Name) and isinstance(n.value, ast.Call) \
                and isinstance(n.value.func, ast.Attribute) and n.value.func.attr == 'get_flow' \
                and len(n.value.args) == 2:
            flows[n.targets[0].id] = tuple(unparse(a) for a in n.value.args)
    stores = [n for n in walk_no_nested(cm.node) if isinstance(n, ast.Assign)
              and isinstance(n.targets[0], ast.Subscript) and isinstance(n.targets[0].slice, ast.Tuple)]
    if len(stores) < 2 or not flows or not idx_of:
        raise AnalysisError('O2: compartmental_matrix does not have the expected store / get_flow structure')
    offdiag = diag = 0
    for st in stores:
        a, b = (unparse(x) for x in st.targets[0].slice.elts)
        v = st.value
        if a != b:
            offdiag += 1
            chk.instance(O2, f'off-diagonal store {unparse(st)}')
            okk = isinstance(v, ast.Name) and v.id in flows
            if okk:
                src, dst = flows[v.id]
                okk = idx_of.get(dst) == a and idx_of.get(src) == b
            if not okk:
                chk.violation(O2, rel, cm.qualname, unparse(st),
                              'the rate of the flow src->dst is not stored at row dst, column src',
                              line=st.lineno,
                              witness='a two-compartment system with different K12 and K21: eqs credit the flow to '
                                      'the wrong compartment (transposed matrix), mass balance is broken')
        else:
            diag += 1
            chk.instance(O2, f'diagonal store {unparse(st)}')
            # value must be <acc> - <outrate>, acc decremented by each rate, outrate = get_flow(src(a), output)
            okk = isinstance(v, ast.BinOp) and isinstance(v.op, ast.Sub) and isinstance(v.left, ast.Name) \
                and isinstance(v.right, ast.Name) and v.right.id in flows
            if okk:
                src, dst = flows[v.right.id]
                okk = idx_of.get(src) == a and dst == 'output'
                acc = v.left.id
                augs = [n for n in walk_no_nested(cm.node) if isinstance(n, ast.AugAssign)
                        and isinstance(n.target, ast.Name) and n.target.id == acc]
                okk = okk and len(augs) >= 1 and all(
                    isinstance(g.op, ast.Sub) and isinstance(g.value, ast.Name) and g.value.id in flows
                    and idx_of.get(flows[g.value.id][0]) == a for g in augs)
                inits = [n for n in walk_no_nested(cm.node) if isinstance(n, ast.Assign)
                         and isinstance(n.targets[0], ast.Name) and n.targets[0].id == acc]
                okk = okk and all(isinstance(i_.value, ast.Constant) and i_.value.value == 0 for i_ in inits)
                # the accumulation must not be conditional on i != j being false only... it must cover every j
                for g in augs:
                    for w in walk_no_nested(cm.node):
                        if isinstance(w, ast.If) and any(x is g for x in ast.walk(w)):
                            okk = False
            if not okk:
                chk.violation(O2, rel, cm.qualname, unparse(st),
                              'the diagonal entry is not 0 - (sum over all destinations of the outflow rates) - '
                              '(rate to output) of that compartment', line=st.lineno,
                              witness='one compartment with an output flow CL/V: eqs give dA/dt with the wrong sign or '
                                      'without the elimination term; total amount is not conserved')
    if not offdiag or not diag:
        raise AnalysisError('O2: expected one off-diagonal and one diagonal store')

    # ---------------------------------------------------------------- O3
    for name, f in cbc.methods.items():
        repl = [c for c in calls_in(f.node) if isinstance(c.func, ast.Attribute) and c.func.attr == 'replace'
                and isinstance(c.func.value, ast.Name) and c.func.value.id in f.all_params]
        if not repl:
            continue
        cfg = CFG(f.node)
        relabels = [n for n in cfg.nodes.values() if n.ast is not None and n.kind == 'stmt'
                    and any(dotted(c.func) in ('nx.relabel_nodes', 'networkx.relabel_nodes')
                            for c in [x for x in ast.walk(n.ast) if isinstance(x, ast.Call)])]
        chk.instance(O3, f'Builder.{name}: {len(repl)} compartment.replace(), {len(relabels)} relabel_nodes')
        rets = [n for n in cfg.nodes.values() if n.kind == 'return']
        targets = [r.id for r in rets] or [cfg.exit]
        if not relabels or any(t in cfg.reachable(cfg.entry, avoid={n.id for n in relabels},
                                                  labels_excluded=('exc', 'fexc')) for t in targets + [cfg.exit]
                               if True):
            # allow early raise paths only: check normal exit/returns reachable without relabel
            bad = [t for t in targets + [cfg.exit]
                   if t in cfg.reachable(cfg.entry, avoid={n.id for n in relabels}, labels_excluded=('exc', 'fexc'))]
            if bad:
                chk.violation(O3, rel, f.qualname, 'replace() without relabel_nodes on a normal path',
                              'a compartment is replaced but the graph is not relabelled', line=f.node.lineno,
                              witness=f'cb.{name}(...) has no effect (or loses the node): the built system does not '
                                      f'contain the requested change')
        for n in relabels:
            for c in [x for x in ast.walk(n.ast) if isinstance(x, ast.Call)
                      and dotted(x.func) in ('nx.relabel_nodes', 'networkx.relabel_nodes')]:
                cp = [kw for kw in c.keywords if kw.arg == 'copy']
                inplace = cp and isinstance(cp[0].value, ast.Constant) and cp[0].value.value is False
                on_g = c.args and unparse(c.args[0]) == 'self._g'
                assigned = isinstance(n.ast, ast.Assign) and unparse(n.ast.targets[0]) == 'self._g'
                if not ((inplace and on_g) or (assigned and on_g)):
                    chk.violation(O3, rel, f.qualname, unparse(c),
                                  'relabel_nodes result is discarded (copy=True default) or applied to another graph',
                                  line=c.lineno,
                                  witness=f'cb.{name}(...) silently does nothing: lag time / dose / input missing '
                                          f'from the system')
                # mapping must map the parameter to the replaced object
                mp = c.args[1] if len(c.args) > 1 else None
                mvars = names(mp) if mp is not None else set()
                mdefs = [x for x in walk_no_nested(f.node) if isinstance(x, ast.Assign)
                         and isinstance(x.targets[0], ast.Name) and x.targets[0].id in mvars]
                mdefs += [x for x in walk_no_nested(f.node) if isinstance(x, ast.Assign)
                          and isinstance(x.targets[0], ast.Subscript) and isinstance(x.targets[0].value, ast.Name)
                          and x.targets[0].value.id in mvars]
                keys_ok = False
                for d in mdefs + ([mp] if isinstance(mp, ast.Dict) else []):
                    dd = d.value if isinstance(d, ast.Assign) else d
                    if isinstance(dd, ast.Dict):
                        for k, v in zip(dd.keys, dd.values):
                            if isinstance(k, ast.Name) and k.id in f.all_params and isinstance(v, ast.Name):
                                vdef = [x for x in walk_no_nested(f.node) if isinstance(x, ast.Assign)
                                        and isinstance(x.targets[0], ast.Name) and x.targets[0].id == v.id]
                                if any(isinstance(x.value, ast.Call) and isinstance(x.value.func, ast.Attribute)
                                       and x.value.func.attr == 'replace' and isinstance(x.value.func.value, ast.Name)
                                       and x.value.func.value.id == k.id for x in vdef):
                                    keys_ok = True
                    if isinstance(d, ast.Assign) and isinstance(d.targets[0], ast.Subscript):
                        k = d.targets[0].slice
                        v = d.value
                        if isinstance(k, ast.Name) and k.id in f.all_params and isinstance(v, ast.Name):
                            keys_ok = True
                if not keys_ok:
                    chk.violation(O3, rel, f.qualname, unparse(c),
                                  'the relabel mapping does not map the compartment parameter to its replaced copy',
                                  line=c.lineno,
                                  witness=f'cb.{name}(comp, ...) relabels another node: the flows of comp end up on '
                                          f'the wrong compartment')
        # no remove+add replacement
        for c in calls_in(f.node):
            if isinstance(c.func, ast.Attribute) and c.func.attr in ('remove_node', 'add_node') \
                    and unparse(c.func.value) == 'self._g':
                chk.violation(O3, rel, f.qualname, unparse(c),
                              'a compartment is replaced by remove_node/add_node, which drops its flows',
                              line=c.lineno, witness=f'cb.{name}(central, ...) on a system with flows: all flows of '
                                                     f'central disappear from the equations')
    # system stores a frozen copy
    init = cs.methods['__init__']
    gstore = [n for n in walk_no_nested(init.node) if isinstance(n, ast.Assign)
              and unparse(n.targets[0]) == 'self._g']
    if not gstore:
        raise AnalysisError('CompartmentalSystem.__init__ does not store self._g')
    for n in gstore:
        v = n.value
        frozen = isinstance(v, ast.Call) and dotted(v.func) in ('nx.freeze', 'networkx.freeze')
        copied = any(is_real_copy(x) for x in ast.walk(v)) or any(isinstance(x, ast.Call) and dotted(x.func) in ('nx.DiGraph',)
                                                  for x in ast.walk(v))
        chk.instance(O3, f'CompartmentalSystem.__init__: self._g = {unparse(v)} (frozen={frozen}, copy={copied})')
        if not (frozen and copied):
            chk.violation(O3, rel, init.qualname, unparse(n),
                          'the system does not keep a frozen private copy of the builder graph', line=n.lineno,
                          witness='build a system, keep editing the builder (or mutate system._g): the already '
                                  'created, supposedly immutable system changes its equations')
    binit = cbc.methods['__init__']
    for n in walk_no_nested(binit.node):
        if isinstance(n, ast.Assign) and unparse(n.targets[0]) == 'self._g' and 'cs' in names(n.value):
            copied = any(is_real_copy(x) for x in ast.walk(n.value)) or any(isinstance(x, ast.Call) and dotted(x.func) == 'nx.DiGraph'
                                                            for x in ast.walk(n.value))
            chk.instance(O3, f'Builder.__init__: self._g = {unparse(n.value)} (copy={copied})')
            if not copied:
                chk.violation(O3, rel, binit.qualname, unparse(n),
                              'the builder shares the (frozen) graph of the system it was created from',
                              line=n.lineno, witness='CompartmentalSystemBuilder(cs).add_flow(...) raises or mutates cs')
    # who mutates a graph `_g` in modules that use the compartmental classes
    for f in repo.all_funcs():
        if 'CompartmentalSystem' not in f.module.source:
            continue
        oc = owner_class(f)
        for n in walk_no_nested(f.node):
            recv = None
            what = None
            if isinstance(n, ast.Call) and isinstance(n.func, ast.Attribute) and n.func.attr in GRAPH_MUT \
                    and isinstance(n.func.value, ast.Attribute) and n.func.value.attr == '_g':
                recv, what = n.func.value.value, unparse(n)
            elif isinstance(n, ast.Call) and dotted(n.func) in ('nx.relabel_nodes',) and n.args \
                    and isinstance(n.args[0], ast.Attribute) and n.args[0].attr == '_g' \
                    and any(kw.arg == 'copy' for kw in n.keywords):
                recv, what = n.args[0].value, unparse(n)
            elif isinstance(n, (ast.Assign, ast.AugAssign)):
                for t in (n.targets if isinstance(n, ast.Assign) else [n.target]):
                    b = t
                    while isinstance(b, ast.Subscript):
                        b = b.value
                    if isinstance(t, ast.Subscript) and isinstance(b, ast.Attribute):
                        inner = b
                        while isinstance(inner, ast.Attribute) and inner.attr != '_g':
                            inner = inner.value
                        if isinstance(inner, ast.Attribute) and inner.attr == '_g':
                            recv, what = inner.value, unparse(n)
                    if isinstance(t, ast.Attribute) and t.attr == '_g':
                        recv, what = t.value, unparse(n)
            if recv is None:
                continue
            if oc is not None and oc.name in ('WorkflowBuilder', 'Workflow'):
                continue
            r = unparse(recv)
            allowed = False
            if oc is cbc and r == 'self':
                allowed = True
            elif oc is cs and f.name == '__init__' and r == 'self':
                allowed = True
            elif isinstance(recv, ast.Name):
                # a local bound to a builder constructor in the same function
                for x in walk_no_nested(f.node):
                    if isinstance(x, ast.Assign) and isinstance(x.targets[0], ast.Name) and x.targets[0].id == recv.id \
                            and isinstance(x.value, ast.Call) and dotted(x.value.func) == 'CompartmentalSystemBuilder':
                        allowed = True
            chk.instance(O3, f'{f.qualname}: graph write {what[:60]} (allowed={allowed})')
            if not allowed:
                chk.violation(O3, f.module.rel, f.qualname, what,
                              'the compartment graph is written outside the builder (or on a graph that is not a private '
                              'builder copy)', line=n.lineno,
                              witness='an existing CompartmentalSystem value (shared by several models) changes')

    # ---------------------------------------------------------------- O4
    for cname in ('CompartmentalSystem', 'Compartment', 'Bolus', 'Infusion'):
        c = m.classes[cname]
        wk, comp = written_keys(repo, c, c.methods['to_dict'])
        req, opt, _ = read_keys(c.methods['from_dict'])
        w = wk - {'class'}
        chk.instance(O4, f'{cname}: written {sorted(w)} read {sorted(req | opt)}')
        if w != (req | opt) or not comp:
            chk.violation(O4, rel, cname, f'keys {sorted(w ^ (req | opt))}',
                          f'{cname}.to_dict and from_dict disagree on keys', line=c.methods['to_dict'].node.lineno,
                          witness=f'from_dict(to_dict(x)) raises KeyError or drops an attribute of {cname}')
    td = cs.methods['to_dict']
    # the positions the edge endpoints are numbered by (`lst.index(x)` or `pos[x]` with pos = {c: n for n, c in enumerate(..)})
    # and the sequence that is serialised must enumerate the same iterable in the same order
    tcfg4 = CFG(td.node)
    last = max(tcfg4.nodes.values(), key=lambda n_: (n_.line or 0)).id

    def origin_txt(e):
        o, fl = order_origin(tcfg4, e, last)
        return unparse(o) + (' ' + ','.join(sorted(fl)) if fl else '')
    pos_dicts = {a_.targets[0].id for a_ in walk_no_nested(td.node) if isinstance(a_, ast.Assign)
                 and isinstance(a_.targets[0], ast.Name) and isinstance(a_.value, ast.DictComp)
                 and isinstance(a_.value.generators[0].iter, ast.Call) and dotted(a_.value.generators[0].iter.func) == 'enumerate'}
    idx_bases = {origin_txt(c.func.value) for c in calls_in(td.node)
                 if isinstance(c.func, ast.Attribute) and c.func.attr == 'index'}
    idx_bases |= {origin_txt(n.value) for n in ast.walk(td.node) if isinstance(n, ast.Subscript) and isinstance(n.value, ast.Name)
                  and n.value.id in pos_dicts and isinstance(n.ctx, ast.Load)}
    ser = set()
    for n in ast.walk(td.node):
        if isinstance(n, (ast.GeneratorExp, ast.ListComp)) and isinstance(n.elt, ast.Call) \
                and isinstance(n.elt.func, ast.Attribute) and n.elt.func.attr == 'to_dict':
            ser.add(origin_txt(n.generators[0].iter) + (' filtered' if n.generators[0].ifs else ''))
    chk.instance(O4, f'CompartmentalSystem.to_dict: edge index base {sorted(idx_bases)}, serialised list {sorted(ser)}')
    if not idx_bases or not ser:
        raise AnalysisError('O4: cannot find the compartment list / index lookups in CompartmentalSystem.to_dict')
    if idx_bases != ser:
        chk.violation(O4, rel, td.qualname, f'index base {sorted(idx_bases)} vs serialised {sorted(ser)}',
                      'edge endpoints are numbered by positions in a different list than the one that is serialised',
                      line=td.node.lineno,
                      witness='a system whose insertion order differs from the serialised order (e.g. after '
                              'set_lag_time, which moves the relabelled node last): from_dict wires the flows to the '
                              'wrong compartments')

    # ---------------------------------------------------------------- O5
    from sa.setorder import SetOrder
    for name, f in cs.methods.items():
        so = SetOrder(f.node, set_funcs={'_comps'})
        n_sets = sum(1 for n in ast.walk(f.node) if isinstance(n, (ast.Set, ast.SetComp))
                     or (isinstance(n, ast.Call) and (dotted(n.func) or '') in ('set', 'frozenset', '_comps')))
        if n_sets or so.leaks:
            chk.instance(O5, f'{name}: {n_sets} set-valued expression(s), {len(so.leaks)} order leak(s)')
        for node, expr, why, txt in so.leaks:
            chk.violation(O5, rel, f.qualname, f'{txt} [{why}]',
                          f'{why}: the result depends on hash order of Compartment objects',
                          line=getattr(expr, 'lineno', f.node.lineno),
                          witness='two equal systems (or the same system in two processes) report compartments, '
                                  'matrix rows or equations in different orders')

    # ---------------------------------------------------------------- O6
    sb = cs.methods.get('subs')
    if sb is None:
        raise AnalysisError('CompartmentalSystem.subs not found')
    # the loops may sit in subs itself or in a (private) builder method it calls on its working builder
    scope6 = [sb.node]
    for c in calls_in(sb.node):
        if isinstance(c.func, ast.Attribute) and c.func.attr.startswith('_') and not c.func.attr.startswith('__'):
            h = cbc.methods.get(c.func.attr)
            if h is not None:
                scope6.append(h.node)
    loops = [n for sc_ in scope6 for n in walk_no_nested(sc_) if isinstance(n, (ast.For, ast.comprehension))]
    seen_edges = seen_nodes = False
    for n in loops:
        txt = unparse(n.iter)
        is_edges = 'edges' in txt
        is_nodes = '_comps' in txt or '.nodes' in txt or (
            isinstance(n.iter, ast.Name) and any('_comps' in unparse(a_) or '.nodes' in unparse(a_)
                                                 for c_ in calls_in(sb.node) for a_ in c_.args))
        if not (is_edges or is_nodes):
            continue
        seen_edges |= is_edges
        seen_nodes |= is_nodes
        def only_drops_output(t):
            # `not isinstance(x, Output)`: the definition of "all compartments" (what _comps() does)
            return isinstance(t, ast.UnaryOp) and isinstance(t.op, ast.Not) and isinstance(t.operand, ast.Call) \
                and dotted(t.operand.func) == 'isinstance' and len(t.operand.args) == 2 \
                and unparse(t.operand.args[1]) == 'Output'
        filt = any(not only_drops_output(t) for t in n.ifs) if isinstance(n, ast.comprehension) else any(
            isinstance(x, (ast.If, ast.Continue, ast.Break)) for s in n.body for x in ast.walk(s))
        chk.instance(O6, f'subs: loop over {txt} filtered={filt}')
        if filt:
            chk.violation(O6, rel, sb.qualname, f'filtered loop over {txt}',
                          'subs skips some rates/compartments', line=sb.node.lineno,
                          witness='substitute an amount function (A_CENTRAL(t) -> A_C1(t)) or a symbol that occurs only '
                                  'inside a composite dose amount: rates are rewritten but the compartment is not, so '
                                  'eqs(cs.subs(s)) != eqs(cs).subs(s)')
    if not (seen_edges and seen_nodes):
        chk.violation(O6, rel, sb.qualname, 'loops over all edges and all compartments',
                      'subs does not visit both all rates and all compartments', line=sb.node.lineno,
                      witness='a substitution of a symbol used in a lag time / dose / rate is not applied everywhere')

    run_o7(chk, O7, repo)


# stale -> replacer calls whose intended effect was already achieved by the preceding call (read and confirmed):
O7_NOOP_OK = {
    ('set_transit_compartments', 'move_dose', 'set_dose'): 'move_dose already moved the admid-1 dose; the stale set_dose is a no-op with the same end state',
    ('set_transit_compartments', 'move_dose', 'add_dose'): 'move_dose already moved the admid-1 dose; the stale add_dose is a no-op with the same end state',
}


def run_o7(chk, O7, repo, only_modules=None):
    m = repo.module('pharmpy.model.statements')
    cbc = m.classes.get('CompartmentalSystemBuilder')
    if cbc is None:
        raise AnalysisError('CompartmentalSystemBuilder not found')
    for f in repo.all_funcs():
        if only_modules is not None and f.module.name not in only_modules:
            continue
        src_has = False
        for c in calls_in(f.node):
            if isinstance(c.func, ast.Attribute) and c.func.attr in REPLACERS:
                src_has = True
                break
        if not src_has:
            continue
        if owner_class(f) is cbc:
            continue
        cfg = CFG(f.node)
        for n in cfg.nodes.values():
            if n.ast is None or n.kind not in ('stmt', 'return', 'yield'):
                continue
            a = n.ast
            if isinstance(a, (ast.FunctionDef, ast.ClassDef)):
                continue
            for c in [x for x in [a, *walk_no_nested(a)] if isinstance(x, ast.Call)]:
                if not (isinstance(c.func, ast.Attribute) and c.func.attr in REPLACERS):
                    continue
                stale = [x.id for x in c.args[:(2 if c.func.attr == 'move_dose' else 1)] if isinstance(x, ast.Name)]
                rebound = set()
                if isinstance(a, ast.Assign):
                    for t in a.targets:
                        rebound |= names(t)
                for v in stale:
                    chk.instance(O7, f'{f.qualname}: {unparse(c)[:60]} (rebinds {v}: {v in rebound})')
                    if v in rebound:
                        continue

                    def assigns(node, v=v):
                        b = node.ast
                        if b is None:
                            return False
                        if node.kind == 'for':
                            return v in names(b.target)
                        if isinstance(b, ast.Assign):
                            return any(v in names(t) for t in b.targets)
                        return False
                    killers = {k.id for k in cfg.nodes.values() if assigns(k)}
                    reach = set()
                    for s in cfg.g.successors(n.id):
                        if s in killers:
                            reach.add(s)
                        else:
                            reach |= cfg.reachable(s, avoid=killers)
                            for r_ in list(reach):
                                for s2 in cfg.g.successors(r_):
                                    if s2 in killers:
                                        reach.add(s2)
                    for mid in reach:
                        nd = cfg.nodes[mid]
                        if nd.ast is None or nd.kind in ('with_exit', 'join', 'dispatch', 'except'):
                            continue
                        e = nd.ast.iter if nd.kind == 'for' else nd.ast
                        if isinstance(e, (ast.FunctionDef, ast.ClassDef)):
                            continue
                        for c2 in [x for x in [e, *walk_no_nested(e)] if isinstance(x, ast.Call)]:
                            if c2 is c or not isinstance(c2.func, ast.Attribute):
                                continue
                            if not any(isinstance(x, ast.Name) and x.id == v for x in c2.args):
                                continue
                            if c2.func.attr in STRUCT_OPS:
                                chk.violation(O7, f.module.rel, f.qualname,
                                              f'{unparse(c)} ... {unparse(c2)}',
                                              f'`{v}` was replaced in the graph by {c.func.attr}() (the new object is '
                                              f'returned) and is then used in {c2.func.attr}()', line=nd.line,
                                              witness='networkx re-creates the stale object as a second node: the '
                                                      'system contains the compartment twice, one copy with the '
                                                      'input/dose and one with the flow; equations are wrong')
                            elif c2.func.attr in REPLACERS:
                                exc = O7_NOOP_OK.get((f.name, c.func.attr, c2.func.attr))
                                chk.violation(O7, f.module.rel, f.qualname,
                                              f'{unparse(c)} ... {unparse(c2)}',
                                              f'stale `{v}` passed to {c2.func.attr}() (relabel of a node that is no '
                                              f'longer in the graph is a silent no-op)' + (f' [listed no-op: {exc}]' if exc else ''),
                                              line=nd.line, advisory=bool(exc),
                                              witness='the compartment has a non-default attribute set by the first call '
                                                      '(e.g. a lag time): the second setter is silently dropped, e.g. '
                                                      'bioavailability disappears from the system')


def run_o9_o10(chk, repo):
    from sa.cfg import CFG
    O9 = chk.rule('O9', '_order_compartments adds a compartment to the ordering only under a not-yet-contained test (each '
                        'compartment once)', floor=1)
    O10 = chk.rule('O10', 'to_dict lists the compartments in graph order (from_dict rebuilds by insertion, and '
                          'central_compartment / dosing order depend on insertion order)', floor=2)
    m = repo.module('pharmpy.model.statements')
    cs = m.classes.get('CompartmentalSystem')
    f = cs.methods.get('_order_compartments')
    if f is None:
        raise AnalysisError('_order_compartments not found')
    # the result list: the returned name that is grown in a loop
    rets = [n.value.id for n in walk_no_nested(f.node) if isinstance(n, ast.Return) and isinstance(n.value, ast.Name)]
    res = next((r for r in rets if any(isinstance(c, ast.Call) and isinstance(c.func, ast.Attribute)
                                        and c.func.attr in ('append', 'extend') and unparse(c.func.value) == r
                                        for c in ast.walk(f.node))), None)
    loop_grow = []
    cfg = CFG(f.node)
    for nd in cfg.nodes.values():
        if nd.kind != 'stmt' or not isinstance(nd.ast, (ast.Expr, ast.AugAssign)):
            continue
        for c in ast.walk(nd.ast):
            if isinstance(c, ast.Call) and isinstance(c.func, ast.Attribute) and c.func.attr in ('append', 'extend', 'insert') \
                    and unparse(c.func.value) == res:
                loop_grow.append((nd, c))
        if isinstance(nd.ast, ast.AugAssign) and unparse(nd.ast.target) == res:
            loop_grow.append((nd, nd.ast))
    if res is None or not loop_grow:
        raise AnalysisError('O9: growth of the ordering list not recognised')
    tests = [n for n in cfg.nodes.values() if n.kind == 'test']
    for nd, c in loop_grow:
        ok = False
        if isinstance(c, ast.Call) and c.func.attr == 'append' and c.args:
            x = unparse(c.args[0])
            for t in tests:
                e = t.ast
                if isinstance(e, ast.Compare) and len(e.ops) == 1 and isinstance(e.ops[0], ast.NotIn) \
                        and unparse(e.left) == x and unparse(e.comparators[0]) == res and cfg.edge_dominates(t.id, 'true', nd.id):
                    ok = True
        elif isinstance(c, ast.Call) and c.func.attr == 'extend' and c.args:
            a = c.args[0]
            src = a
            if isinstance(a, ast.Name):
                defs = [n.value for n in walk_no_nested(f.node) if isinstance(n, ast.Assign)
                        and unparse(n.targets[0]) == a.id]
                src = defs[-1] if len(defs) == 1 else None
            if isinstance(src, (ast.ListComp, ast.GeneratorExp)) and any(
                    isinstance(i_, ast.Compare) and isinstance(i_.ops[0], ast.NotIn) and unparse(i_.comparators[0]) == res
                    for g_ in src.generators for i_ in g_.ifs):
                ok = True
        chk.instance(O9, f'_order_compartments: `{nd.text()[:60]}` only for compartments not yet in `{res}`: {ok}')
        if not ok:
            chk.violation(O9, m.rel, f.qualname, nd.text()[:80],
                          f'compartments are added to `{res}` without testing that they are not there yet',
                          line=nd.line,
                          witness='a compartment upstream of the first dosing compartment (move the dose from DEPOT to CENTRAL): '
                                  'CENTRAL and PERIPHERAL are listed twice, amounts/matrix/eqs get extra rows')
    # O10
    cc = cs.methods.get('central_compartment')
    td = cs.methods.get('to_dict')
    fd = cs.methods.get('from_dict')
    if cc is None or td is None or fd is None:
        raise AnalysisError('O10: central_compartment / to_dict / from_dict not found')
    positional = any(isinstance(n, ast.Subscript) and isinstance(n.value, ast.Call) and dotted(n.value.func) == 'list'
                     and any(isinstance(a, ast.Attribute) and a.attr in ('predecessors', 'successors')
                             for a in ast.walk(n.value)) for n in ast.walk(cc.node))
    chk.instance(O10, f'central_compartment picks a neighbour of output by position (insertion-order dependent): {positional}')
    if not positional:
        chk.instance(O10, 'central_compartment is order independent: rule not armed')
        return
    # what is written under 'compartments': followed back through order preserving wrappers (list / tuple / dict / enumerate
    # / a comprehension without filter / a local) to the iterable it enumerates
    from sa import reach as _reach
    tcfg = CFG(td.node)
    rdict = [(n, r.value) for n in tcfg.nodes.values() if n.kind == 'return' for r in [n.ast]
             if isinstance(r.value, (ast.Dict, ast.Name))]
    src = None
    at = None
    for n, v in rdict:
        if isinstance(v, ast.Name):
            vs = _reach.values(tcfg, n.id, v.id) or []
            v = vs[0][1] if len(vs) == 1 else None
        if isinstance(v, ast.Dict):
            for k, val in zip(v.keys, v.values):
                if isinstance(k, ast.Constant) and k.value == 'compartments':
                    src, at = val, n.id
    if src is None:
        raise AnalysisError("O10: the value written under 'compartments' in to_dict not recognised")
    NODES = ('self._g.nodes', 'self._g', 'self._g.nodes()')
    org, flags = order_origin(tcfg, src, at)
    graph_order = unparse(org) in NODES and not flags
    chk.instance(O10, f"to_dict: 'compartments' = {unparse(src)[:60]} enumerates {unparse(org)[:40]} {sorted(flags)} "
                      f'(graph order: {graph_order})')
    if not graph_order:
        chk.violation(O10, m.rel, td.qualname, f'comps = {unparse(src)[:80]}',
                      'the serialised compartment order is not the graph\'s insertion order; from_dict inserts in the '
                      'serialised order, and central_compartment / dosing_compartments follow insertion order',
                      line=src.lineno,
                      witness='parent CENTRAL with two eliminated metabolites, then add_dose(METAB1, ...): from_dict(to_dict(cs)) '
                              'picks another central compartment and is != cs')



def order_origin(cfg, e, nid, depth=8, flags=None):
    """the iterable whose order a sequence expression inherits, followed back through order preserving wrappers (list / tuple
    / dict / enumerate / dict views / a comprehension without filter / a local) -> (expression, flags); flags name what
    breaks the correspondence (filtered, sorted, reversed, set, unordered)"""
    from sa import reach as _reach
    flags = set() if flags is None else flags
    while depth > 0:
        depth -= 1
        if isinstance(e, ast.Name):
            vs = _reach.values(cfg, nid, e.id) or []
            if len(vs) == 1:
                nid, e = vs[0][0], vs[0][1]
                continue
            break
        if isinstance(e, (ast.ListComp, ast.GeneratorExp, ast.DictComp, ast.SetComp)) and len(e.generators) == 1:
            if e.generators[0].ifs:
                flags.add('filtered')
            if isinstance(e, ast.SetComp):
                flags.add('unordered')
            e = e.generators[0].iter
            continue
        if isinstance(e, ast.Call) and dotted(e.func) in ('list', 'tuple', 'iter', 'dict', 'enumerate') and len(e.args) >= 1:
            e = e.args[0]
            continue
        if isinstance(e, ast.Call) and dotted(e.func) in ('sorted', 'reversed', 'set', 'frozenset') and e.args:
            flags.add(dotted(e.func))
            e = e.args[0]
            continue
        if isinstance(e, ast.Call) and isinstance(e.func, ast.Attribute) and e.func.attr in ('keys', 'values', 'items') \
                and not e.args:
            e = e.func.value
            continue
        break
    return e, flags


def run_o12_o13(chk, repo):
    """O12: subs()/replace() of the system classes rebuild the object with every constructor field; O13: from_dict adds every
    deserialised compartment to the builder (not only those that take part in a flow)"""
    from sa.classes import reconstruction_sites
    O12 = chk.rule('O12', 'subs() / replace() of Compartment, the dose classes and CompartmentalSystem pass every constructor '
                          'parameter (those defaulting to None excepted) when they build the new object', floor=8)
    sm = repo.module('pharmpy.model.statements')
    for c in dict.values(sm.classes):
        for f, call, missing, tgt in reconstruction_sites(repo, c, ('subs', 'replace')):
            chk.instance(O12, f'{c.name}.{f.name}: {unparse(call)[:70]} supplies all of {tgt}: {not missing}')
            if missing:
                chk.violation(O12, sm.rel, f.qualname, unparse(call)[:100],
                              f'the rebuilt {c.name} does not get {", ".join(missing)}: the attribute silently falls back to its '
                              f'default', line=call.lineno,
                              witness='a duration infusion with admid 2, or a compartment with a zero-order input followed by '
                                      'set_lag_time: the admid becomes 1 / the input disappears from the equations')
    O13 = chk.rule('O13', 'CompartmentalSystem.from_dict adds every deserialised compartment to the builder', floor=1)
    cs = sm.classes.get('CompartmentalSystem')
    fd = cs.methods.get('from_dict') if cs else None
    if fd is None:
        raise AnalysisError('CompartmentalSystem.from_dict not found')
    adds = [c for c in calls_in(fd.node) if isinstance(c.func, ast.Attribute) and c.func.attr == 'add_compartment']
    made = [c for c in calls_in(fd.node) if unparse(c.func).endswith('Compartment.from_dict')]
    if not made:
        raise AnalysisError('O13: Compartment.from_dict(...) not found in CompartmentalSystem.from_dict')
    # each add must receive (a local bound to) the deserialised compartment, inside the iteration over the entries
    ok = False
    for a in adds:
        arg = a.args[0] if a.args else None
        if arg is None:
            continue
        if isinstance(arg, ast.Name):
            srcs = [n.value for n in ast.walk(fd.node) if isinstance(n, ast.Assign) and isinstance(n.targets[0], ast.Name)
                    and n.targets[0].id == arg.id]
            loops = [l_ for l_ in ast.walk(fd.node) if isinstance(l_, (ast.For, ast.comprehension))
                     and isinstance(l_.target, ast.Name) and l_.target.id == arg.id]
            if any(unparse(c.func).endswith('Compartment.from_dict') for s_ in srcs for c in ast.walk(s_)
                   if isinstance(c, ast.Call)) or loops:
                ok = True
        elif any(unparse(c.func).endswith('Compartment.from_dict') for c in ast.walk(arg) if isinstance(c, ast.Call)):
            ok = True
    chk.instance(O13, f'from_dict: {len(made)} Compartment.from_dict, {len(adds)} add_compartment of the result: {ok}')
    if not ok:
        chk.violation(O13, sm.rel, fd.qualname, 'compartments reach the builder only through add_flow',
                      'a compartment without any flow (an AUC integrator with only a zero-order input, a compartment left '
                      'isolated by remove_flow) is dropped on deserialisation', line=fd.node.lineno,
                      witness='from_dict(to_dict(cs)) != cs for a system with an isolated compartment')


def run_o14(chk, repo):
    """the four vector / matrix views of a system (amounts, compartment_names, compartmental_matrix, zero_order_inputs) list
    the compartments in one common order: eqs = matrix * amounts + inputs pairs them by position"""
    O14 = chk.rule('O14', 'CompartmentalSystem: amounts, compartment_names, compartmental_matrix and zero_order_inputs all '
                          'enumerate the compartments with the same ordering function', floor=4)
    sm = repo.module('pharmpy.model.statements')
    cs = sm.classes.get('CompartmentalSystem')
    if cs is None:
        raise AnalysisError('CompartmentalSystem not found')
    views = {}
    for name in ('amounts', 'compartment_names', 'compartmental_matrix', 'zero_order_inputs'):
        f = cs.methods.get(name)
        if f is None:
            raise AnalysisError(f'CompartmentalSystem.{name} not found')
        # the enumeration the result is built from: calls of ordering methods of self, or other sources of compartments
        srcs = set()
        for c in calls_in(f.node):
            if isinstance(c.func, ast.Attribute) and isinstance(c.func.value, ast.Name) and c.func.value.id == 'self' \
                    and c.func.attr.startswith('_order'):
                srcs.add(f'self.{c.func.attr}()')
            elif dotted(c.func) in ('sorted', '_comps') or (isinstance(c.func, ast.Attribute) and c.func.attr in ('nodes',)):
                srcs.add(unparse(c)[:50])
        for a_ in ast.walk(f.node):
            if isinstance(a_, ast.Attribute) and a_.attr == 'nodes' and 'self._g' in unparse(a_):
                srcs.add('self._g.nodes')
            if isinstance(a_, ast.Attribute) and isinstance(a_.value, ast.Name) and a_.value.id == 'self' \
                    and a_.attr in ('amounts', 'compartment_names') and a_.attr != name:
                srcs.add(f'self.{a_.attr}')       # derived from another view
        views[name] = srcs
        chk.instance(O14, f'CompartmentalSystem.{name}: compartments enumerated by {sorted(srcs)}')
    base = {s_ for v in views.values() for s_ in v if s_.startswith('self._order')}
    if len(base) != 1:
        raise AnalysisError(f'O14: ordering function of the system views not recognised ({views})')
    for name, srcs in views.items():
        other = {s_ for s_ in srcs if not s_.startswith('self._order') and not s_.startswith('self.amounts')
                 and not s_.startswith('self.compartment_names')}
        if other or not srcs:
            chk.violation(O14, sm.rel, f'CompartmentalSystem.{name}', f'enumerates by {sorted(srcs)}',
                          f'{name} lists the compartments in another order than the other views ({sorted(base)}): the rows of '
                          f'eqs pair an amount with the wrong input / matrix row', line=cs.methods[name].node.lineno,
                          witness='first order absorption + zero order input into CENTRAL: the input lands in dA_DEPOT/dt, '
                                  'solve_ode_system solves another system')


def run_o15(chk, repo):
    """O15: to_compartmental_system recovers a flow between two compartments from a term of the equations; the equations
    generated back from the system contain rate * amount, so the recovered rate must satisfy rate * A(t) == term for EVERY term,
    also a saturable one (VM*A/(KM + A)): rate = term / A(t). The flow expressions given to add_flow in the between-compartment
    branch are checked as algebra over the symbols term, comp_func, current_flow"""
    import sympy
    from sa import tables as T_
    from sa import reach
    from sa.cfg import CFG
    O15 = chk.rule('O15', 'to_compartmental_system: the rate of a flow recovered between two compartments is term / amount '
                          '(algebraically: rate * amount == term, plus the flow already present)', floor=2)
    sm = repo.module('pharmpy.model.statements')
    f = sm.functions.get('to_compartmental_system')
    if f is None:
        raise AnalysisError('O15: to_compartmental_system not found')
    cfg = CFG(f.node)
    INEXACT = {'as_independent', 'coeff', 'as_coefficient', 'as_coeff_Mul', 'as_coeff_mul', 'diff', 'as_coefficients_dict'}
    n = 0
    for nd in cfg.nodes.values():
        if nd.ast is None or nd.kind != 'stmt':
            continue
        for c in [c for c in ast.walk(nd.ast) if isinstance(c, ast.Call) and isinstance(c.func, ast.Attribute)
                  and c.func.attr == 'add_flow' and len(c.args) == 3]:
            if not (isinstance(c.args[0], ast.Name) and 'from' in c.args[0].id and isinstance(c.args[1], ast.Name)
                    and 'to' in c.args[1].id):
                continue
            def expand(nid_, x_):
                try:
                    return reach.expand_expr(cfg, nid_, x_, depth=3)
                except TypeError:
                    return reach.expand_expr(cfg, nid_, x_)
            alts = [expand(nd.id, c.args[2])]
            if isinstance(alts[0], ast.Name):
                # several definitions reach the call (`x = term / A; if cur != 0: x = x + cur`): each one is a flow given
                alts = [expand(i_, v_) for i_, v_ in (reach.values(cfg, nd.id, alts[0].id) or [])] or alts
            for e in alts:
                _o15_one(chk, O15, sm, f, c, e, INEXACT)
                n += 1 if 'term' in unparse(e) else 0
    if n < 2:
        raise AnalysisError(f'O15: only {n} recovered between-compartment flows found')


def _o15_one(chk, O15, sm, f, c, e, INEXACT):
    import sympy
    from sa import tables as T_
    if True:
        if True:
            txt = unparse(e)
            if 'term' not in txt:
                return
            bad_call = next((x for x in ast.walk(e) if isinstance(x, ast.Call) and isinstance(x.func, ast.Attribute)
                             and x.func.attr in INEXACT), None)
            if bad_call is not None:
                chk.instance(O15, f'add_flow(.., {txt[:60]}): exact: False')
                chk.violation(O15, sm.rel, f.qualname, f'add_flow(.., {txt[:80]})',
                              f'`.{bad_call.func.attr}(..)` picks out a factor / coefficient of the term: that equals term / amount '
                              f'only for a term that is linear in the amount', line=c.lineno,
                              witness='dA1/dt = -VM*A1/(KM + A1), dA2/dt = VM*A1/(KM + A1) - K*A2: the recovered flow A1 -> A2 is '
                                      'VM, and the equations of the recovered system differ from the input')
                return
            env = {k: sympy.Symbol(k) for k in ('term', 'comp_func', 'current_flow')}

            class _Flow(ast.NodeTransformer):
                def visit_Call(self, c_):
                    if isinstance(c_.func, ast.Attribute) and c_.func.attr == 'get_flow':
                        return ast.Name(id='current_flow', ctx=ast.Load())
                    return self.generic_visit(c_)
            import copy as _copy
            e = _Flow().visit(_copy.deepcopy(e))
            try:
                rate = T_.to_sympy(e, env)
            except AnalysisError as ex:
                raise AnalysisError(f'O15: flow expression `{txt[:60]}` is not Expr arithmetic over term / comp_func / '
                                    f'current_flow ({ex})')
            d1 = sympy.simplify(rate * env['comp_func'] - env['term'])
            d2 = sympy.simplify((rate - env['current_flow']) * env['comp_func'] - env['term'])
            ok = d1 == 0 or d2 == 0
            chk.instance(O15, f'add_flow(.., {txt[:60]}): rate * amount == term: {ok}')
            if not ok:
                chk.violation(O15, sm.rel, f.qualname, f'add_flow(.., {txt[:80]})',
                              'the flow given to the builder, times the amount of the source compartment, is not the term it was '
                              'recovered from', line=c.lineno,
                              witness='any two-compartment system: eqs(to_compartmental_system(eqs)) != eqs')


def run_o16(chk, repo):
    """O16: last pass of to_compartmental_system: a leftover term of a compartment's equation becomes a zero-order input only
    when it is PROVABLY positive (the tri-state _is_positive(term) answered True); every other term - negative or of
    undecidable sign such as -CL*(1 - FM)/V*A - is elimination and goes to the output flow. Structural clause: the accumulator
    that reaches set_input is incremented only in the branch that _is_positive(<the term itself>) guards positively."""
    O16 = chk.rule('O16', 'to_compartmental_system: only terms proved positive become zero-order input; undecided terms go to '
                          'the output flow', floor=1)
    m = repo.module('pharmpy.model.statements')
    f = m.functions.get('to_compartmental_system')
    if f is None:
        raise AnalysisError('O16: to_compartmental_system not found')
    inputs = {a.id for c in ast.walk(f.node) if isinstance(c, ast.Call) and isinstance(c.func, ast.Attribute)
              and c.func.attr == 'set_input' and len(c.args) == 2 for a in ast.walk(c.args[1]) if isinstance(a, ast.Name)}
    if not inputs:
        raise AnalysisError('O16: no set_input(<compartment>, <accumulator>) call in to_compartmental_system')
    # plain copies (`i, o = (positive, other)` left by an extracted and inlined helper) carry the role of the accumulator
    for _ in range(4):
        for a in ast.walk(f.node):
            if isinstance(a, ast.Assign) and len(a.targets) == 1:
                tg, vl = a.targets[0], a.value
                pairs = list(zip(tg.elts, vl.elts)) if isinstance(tg, ast.Tuple) and isinstance(vl, ast.Tuple) \
                    and len(tg.elts) == len(vl.elts) else [(tg, vl)]
                for t_, v_ in pairs:
                    if isinstance(t_, ast.Name) and isinstance(v_, ast.Name) and t_.id in inputs:
                        inputs.add(v_.id)

    def incremented(stmts):
        out = set()
        for s in stmts:
            for a in ast.walk(s):
                if isinstance(a, ast.AugAssign) and isinstance(a.target, ast.Name):
                    out.add((a.target.id, unparse(a.value)))
                elif isinstance(a, ast.Assign) and len(a.targets) == 1 and isinstance(a.targets[0], ast.Name) \
                        and isinstance(a.value, ast.BinOp) and isinstance(a.value.op, ast.Add) \
                        and isinstance(a.value.left, ast.Name) and a.value.left.id == a.targets[0].id:
                    out.add((a.targets[0].id, unparse(a.value.right)))
        return out
    n = 0
    for I in ast.walk(f.node):
        if not isinstance(I, ast.If):
            continue
        t, neg = I.test, False
        while isinstance(t, ast.UnaryOp) and isinstance(t.op, ast.Not):
            t, neg = t.operand, not neg
        if isinstance(t, ast.Compare) and len(t.ops) == 1 and isinstance(t.ops[0], (ast.Is, ast.Eq)) \
                and isinstance(t.comparators[0], ast.Constant) and t.comparators[0].value is True:
            t = t.left
        if not (isinstance(t, ast.Call) and (dotted(t.func) or '').split('.')[-1].lstrip('_') == 'is_positive' and len(t.args) == 1):
            continue
        pos_branch, other = (I.orelse, I.body) if neg else (I.body, I.orelse)
        inc_pos, inc_other = incremented(pos_branch), incremented(other)
        if not any(v in inputs for v, _ in inc_pos | inc_other):
            continue
        n += 1
        arg = unparse(t.args[0])
        bad = [(v, term) for v, term in inc_other if v in inputs]
        bad += [(v, term) for v, term in inc_pos if v in inputs and term != arg]
        ok = not bad
        chk.instance(O16, f'to_compartmental_system: if {unparse(I.test)[:40]}: input accumulator only under the positive proof of '
                          f'the added term: {ok}')
        if not ok:
            chk.violation(O16, m.rel, f.qualname, f'if {unparse(I.test)[:50]}: {bad[0][0]} += {bad[0][1]}',
                          f'`{bad[0][0]}` (passed to set_input) receives terms that were not proved positive: a term of '
                          f'undecidable sign becomes a zero-order input instead of the output flow', line=I.lineno,
                          witness='one-compartment system with output rate CL*(1 - FM)/V: to_compartmental_system(eqs) has no '
                                  'output flow and an invented input -CL*(1-FM)*A/V')
    if n == 0:
        raise AnalysisError('O16: no _is_positive(term) branch that feeds the set_input accumulator found')
