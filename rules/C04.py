"""C04 Parameter and random-effect edits are written back exactly: P1 multiplicity symmetry, P2 FIX flag
synchronisation idiom, P3 node-versus-value comparisons, A5 lexer/parser table cross-check of the parameter
record grammars."""
from __future__ import annotations

import ast

from sa import grammar as G
from sa import lexsteal
from sa.report import AnalysisError
from sa.srcmodel import unparse, walk_no_nested, calls_in, dotted

NM = 'pharmpy.model.external.nonmem'


def names(node):
    return {n.id for n in ast.walk(node) if isinstance(n, ast.Name)}


def run_a5(chk, rule, grammar_files):
    gdir = G.nonmem_grammar_dir()
    for gfile in grammar_files:
        L = G.load_file(gdir / gfile, start='root', keep_all_tokens=True, propagate_positions=True)
        if not any(lexsteal_blank(L, t) for t in G.ignored(L)):
            chk.instance(rule, f'{gfile}: no ignored blank terminal, spacing analysis not applicable')
            continue
        ns, nt, npairs, found = lexsteal.check(L, maxlen=10, limit=20000)
        chk.instance(rule, f'{gfile}: {len(G.lalr_states(L))} LALR states, {ns} witness sentences, {nt} texts parsed, '
                           f'{npairs} adjacency contexts', n=max(ns, 1))
        tdefs = G.terminal_defs(L)
        for x in found:
            if x['error'].startswith('read as'):
                continue       # a different but successful tokenisation (e.g. a signed number) is not a rejection
            lit = tdefs[x['expected']].pattern.value if x['expected'] in tdefs else ''
            single_punct = type(tdefs[x['expected']].pattern).__name__ == 'PatternStr' and len(lit) == 1 \
                and not lit.isalnum() if x['expected'] in tdefs else False
            if x['kind'] == 'punct-steal' and not single_punct:
                continue
            if x['kind'] == 'other':
                continue
            rel = f'src/pharmpy/model/external/nonmem/records/grammars/{gfile}'
            construct = f'{x["kind"]}: {x["expected"]} read as {x["got"]}' + (
                f' before {x["next"]}' if x['kind'] == 'punct-steal' else '')
            chk.violation(rule, rel, x['expected'], construct,
                          f'the LALR table accepts the token sentence {" ".join(x["sentence"])} but its spelling '
                          f'{x["text"]!r} is rejected by the lexer+parser built from the same grammar: {x["error"]}',
                          witness=f'a record body {x["text"]!r} (a form listed in the grammar header / the NONMEM help) '
                                  f'cannot be read: ModelSyntaxError / lark error instead of the parameters')


def lexsteal_blank(L, tname):
    import re
    t = G.terminal_defs(L)[tname]
    try:
        return bool(re.fullmatch(t.pattern.to_regexp(), ' '))
    except re.error:
        return False


def run(chk, repo, tier):
    chk.explanation = (
        'P1: readers of $THETA/$OMEGA expand (value)xn; every writer that walks the same nodes advances its index by the '
        'multiplicity and reads all n parameters of a group. P2: every insertion/removal of a FIX token is under '
        '`new != old` and inserts for a true / removes for a false new flag. P3: no result of find()/subtree() (a tree '
        'node or None) is compared with a number. A5: every token sentence that the LALR tables of theta_record.lark and '
        'omega_record.lark accept is, spelled with canonical lexemes (blank separated, and without blanks around '
        'punctuation), accepted by the lexer+parser built from the same grammar. NOT decided: numeric cov<->sd/corr/'
        'cholesky conversion, the LCS edit script, name-comment bookkeeping.')
    P1 = chk.rule('P1', 'multiplicity (xn) symmetry between readers and writers of theta/omega records', floor=6)
    P2 = chk.rule('P2', 'FIX token synchronisation idiom: under new != old, insert iff new', floor=4)
    P3 = chk.rule('P3', 'no comparison of a tree node (find/subtree result) with a numeric bound', floor=2)
    P4 = chk.rule('P4', 'new $THETA text: the form chosen for each (lower, upper) finiteness combination is one the '
                        'reader interprets with the same roles ((low,init,up) needs a low slot whenever up is written)',
                  floor=4)
    P5 = chk.rule('P5', 'FIX is removed wherever the reader looks for it (recursively inside omega items for blocks)',
                  floor=1)
    A5 = chk.rule('A5', 'LALR-accepted token sentences are accepted by lexer+parser when spelled out', floor=200)
    P6 = chk.rule('P6', 'LCS edit script: branches consume the right element, the longer common subsequence is followed, ties '
                        'emit the insertion last (deletions before insertions in a hunk)', floor=4)
    from rules import C04b
    C04b.run_p6(chk, P6, repo)
    P7 = chk.rule('P7', 'FIX edits of an item do not reach the FIX comparison of the next repeat (the compared flag '
                        'describes the edited node)', floor=2)
    C04b.run_p7(chk, P7, repo)
    P8 = chk.rule('P8', 'the running eta number advances for added and kept distributions and never for removed ones',
                  floor=3)
    C04b.run_p8(chk, P8, repo)
    P9 = chk.rule('P9', 'record editing never drops a line break when it drops items', floor=2)
    C04b.run_p9(chk, P9, repo)
    C04b.run_p10_p11(chk, repo)
    P12 = chk.rule('P12', 'ThetaRecord.update: the parameter cursor advances by the repeat count (value)xN of each theta',
                   floor=1)
    C04b.theta_cursor(chk, P12, repo)
    C04b.run_p13_p15(chk, repo)
    C04b.run_p16(chk, repo)
    C04b.run_p17_p18(chk, repo)
    C04b.run_p19_p20(chk, repo)
    from rules.C01b import run_theta_sentinels
    run_theta_sentinels(chk, repo, 'P21')
    C04b.run_p22(chk, repo)

    tm = repo.module(f'{NM}.records.theta_record')
    om = repo.module(f'{NM}.records.omega_record')
    tr = tm.classes.get('ThetaRecord')
    orr = om.classes.get('OmegaRecord')
    if tr is None or orr is None:
        raise AnalysisError('ThetaRecord / OmegaRecord not found')

    # ---------------------------------------------------------------- P1
    for cls, mod, node_rules in ((tr, tm, ('theta',)), (orr, om, ('diag_item', 'omega'))):
        for mname, f in cls.methods.items():
            src = unparse(f.node)
            walks = any(f"'{r}'" in src for r in node_rules)
            if not walks:
                continue
            # multiplicity variable: n = self._multiple(x) / eval_token(...subtree('n')...)
            mult_vars = {n.targets[0].id for n in ast.walk(f.node) if isinstance(n, ast.Assign)
                         and isinstance(n.targets[0], ast.Name)
                         and C04b.has_mult(repo, unparse(n.value))}
            # ... or a name unpacked from the result of a helper of the record that computes the multiplicity
            # (`child, n = self._update_theta(child, parameters[i])`)
            for a_ in ast.walk(f.node):
                if isinstance(a_, ast.Assign) and isinstance(a_.targets[0], ast.Tuple) and isinstance(a_.value, ast.Call):
                    cn = (dotted(a_.value.func) or '').split('.')[-1]
                    h_ = cls.methods.get(cn) or mod.functions.get(cn)
                    if h_ is not None and C04b.has_mult(repo, unparse(h_.node)):
                        for r_ in ast.walk(h_.node):
                            if isinstance(r_, ast.Return) and isinstance(r_.value, ast.Tuple):
                                for k_, e_ in enumerate(r_.value.elts):
                                    if isinstance(e_, ast.Name) and k_ < len(a_.targets[0].elts) \
                                            and isinstance(a_.targets[0].elts[k_], ast.Name) and any(
                                            isinstance(d_, ast.Assign) and isinstance(d_.targets[0], ast.Name)
                                            and d_.targets[0].id == e_.id and C04b.has_mult(repo, unparse(d_.value))
                                            for d_ in ast.walk(h_.node)):
                                        mult_vars.add(a_.targets[0].elts[k_].id)
            zeroed = {t.id for scope in ([f.node] + ([f.parent.node] if f.parent is not None else []))
                      for a_ in ast.walk(scope) if isinstance(a_, ast.Assign) and isinstance(a_.value, ast.Constant)
                      and a_.value.value == 0 and not isinstance(a_.value.value, bool)
                      for t in a_.targets if isinstance(t, ast.Name)}
            # ... that count parameters: the counter subscripts a parameter of the function (parameters[i]), is looked up in
            # one (i in inds) or is what the function returns (__len__)
            scopes_ = [f.node] + ([f.parent.node] if f.parent is not None else [])
            fparams = {a_.arg for sc_ in scopes_ for a_ in sc_.args.args} - {'self'}
            for _ in range(3):      # locals computed from a parameter (`eta_inds = {ind for ind, _ in inds}`)
                fparams |= {t.id for sc_ in scopes_ for a_ in ast.walk(sc_) if isinstance(a_, ast.Assign)
                            and any(isinstance(y, ast.Name) and y.id in fparams for y in ast.walk(a_.value))
                            for t in a_.targets if isinstance(t, ast.Name)}

            def counts_parameters(v):
                for sc_ in scopes_:
                    for x in ast.walk(sc_):
                        if isinstance(x, ast.Subscript) and isinstance(x.value, ast.Name) and x.value.id in fparams \
                                and any(isinstance(y, ast.Name) and y.id == v for y in ast.walk(x.slice)):
                            return True
                        if isinstance(x, ast.Compare) and isinstance(x.left, ast.Name) and x.left.id == v and any(
                                isinstance(o, (ast.In, ast.NotIn)) for o in x.ops) and any(
                                isinstance(y, ast.Name) and y.id in fparams for c_ in x.comparators for y in ast.walk(c_)):
                            return True
                        if isinstance(x, ast.Return) and isinstance(x.value, ast.Name) and x.value.id == v:
                            return True
                return False
            idx_incs = [n for n in ast.walk(f.node) if isinstance(n, ast.AugAssign) and isinstance(n.op, ast.Add)
                        and isinstance(n.target, ast.Name) and n.target.id in zeroed and counts_parameters(n.target.id)]
            if not idx_incs:
                continue
            for inc in idx_incs:
                by_mult = bool(names(inc.value) & mult_vars) or C04b.has_mult(repo, unparse(inc.value))
                chk.instance(P1, f'{cls.name}.{mname}: {unparse(inc)} (advances by multiplicity: {by_mult})')
                if not by_mult:
                    chk.violation(P1, mod.rel, f'{cls.name}.{mname}', f'parameter counter += {unparse(inc.value)}',
                                  f'{mname} counts one per node while the readers of {cls.name} (and its callers) count '
                                  f'(value)xn as n parameters', line=inc.lineno,
                                  witness='$THETA (1)x2 (3): removing THETA(3) indexes past the node list (internal '
                                          'IndexError) or removes the wrong parameter')
            # a writer indexing `parameters[i]` must read all n parameters of a group
            reads = [n for n in ast.walk(f.node) if isinstance(n, ast.Subscript) and unparse(n.value) == 'parameters']
            if reads and mult_vars:
                ranged = any(isinstance(lp, (ast.For, ast.comprehension)) and 'range' in unparse(lp.iter)
                             and names(lp.iter) & mult_vars for lp in ast.walk(f.node))
                chk.instance(P1, f'{cls.name}.{mname}: reads all n parameters of an xn group: {ranged}')
                if not ranged:
                    chk.violation(P1, mod.rel, f'{cls.name}.{mname}', 'parameters[i] for an xn group',
                                  'only the first parameter of a (value)xn group is written back', line=f.node.lineno,
                                  witness='$THETA (1)x2: set the second theta to 5: the text stays (1)x2 and re-reading '
                                          'gives 1.0 (silent loss of the edit)')
    # ---------------------------------------------------------------- P2
    n2 = 0
    for cls, mod in ((tr, tm), (orr, om)):
        f = cls.methods.get('update')
        if f is None:
            raise AnalysisError(f'{cls.name}.update not found')
        parents = {}
        for p in ast.walk(f.node):
            for ch in ast.iter_child_nodes(p):
                parents[id(ch)] = p

        def enclosing_ifs(n):
            out = []
            p = parents.get(id(n))
            child = n
            while p is not None and p is not f.node:
                if isinstance(p, ast.If):
                    out.append((p, any(child is x or any(child is y for y in ast.walk(x)) for x in p.body)))
                child = p
                p = parents.get(id(p))
            return out
        for c in [x for x in ast.walk(f.node) if isinstance(x, ast.Call)]:
            src = unparse(c)
            is_ins = "AttrToken('FIX', 'FIX')" in src and dotted(c.func) in ('insert_before_or_at_end', 'insert_after',
                                                                           'AttrTree')
            is_rem = dotted(c.func) == 'remove_token_and_space' and "'FIX'" in src
            if not (is_ins or is_rem):
                continue
            ifs = enclosing_ifs(c)
            n2 += 1
            # innermost if decides direction, an outer if must be the inequality
            direction_ok = False
            neq_ok = False
            if ifs:
                inner, in_body = ifs[0]
                t = inner.test
                flagish = isinstance(t, (ast.Name, ast.Subscript, ast.Attribute)) and not isinstance(t, ast.Compare)
                old_flags = {a.targets[0].id for a in ast.walk(f.node) if isinstance(a, ast.Assign)
                             and isinstance(a.targets[0], ast.Name) and '.find(' in unparse(a.value)}
                if flagish and not (isinstance(t, ast.Name) and t.id in old_flags):
                    direction_ok = (is_ins and in_body) or (is_rem and not in_body)
                for outer, ob in ifs[1:] + ([ifs[0]] if not flagish else []):
                    tt = outer.test
                    if isinstance(tt, ast.Compare) and isinstance(tt.ops[0], ast.NotEq) and ob:
                        neq_ok = True
            chk.instance(P2, f'{cls.name}.update: {"insert" if is_ins else "remove"} FIX '
                             f'(under != : {neq_ok}, direction by new flag: {direction_ok})')
            if not (neq_ok and direction_ok):
                chk.violation(P2, mod.rel, f'{cls.name}.update', src[:100],
                              'the FIX token is inserted/removed without the idiom `if new != old: insert if new else '
                              'remove`', line=c.lineno,
                              witness='$OMEGA (0.1 FIX)x2 with one changed init: FIX is dropped (or added when unfixing); '
                                      're-reading the generated code gives other fixedness than the model')
    if n2 < 4:
        raise AnalysisError(f'P2: only {n2} FIX insertion/removal sites found')
    # ---------------------------------------------------------------- P3
    n3 = 0
    for cls, mod in ((tr, tm), (orr, om)):
        # the methods of the record class and the module-level functions of its module (helpers of the methods)
        scope_ = list(cls.methods.items()) + [(g.name, g) for g in mod.functions.values()
                                              if g.cls is None and g.parent is None]
        for mname, f in scope_:
            node_vars = {n.targets[0].id for n in ast.walk(f.node) if isinstance(n, ast.Assign)
                         and isinstance(n.targets[0], ast.Name) and isinstance(n.value, ast.Call)
                         and isinstance(n.value.func, ast.Attribute) and n.value.func.attr in ('find', 'subtree', 'leaf')}
            for n in ast.walk(f.node):
                if isinstance(n, ast.Compare) and isinstance(n.ops[0], (ast.Eq, ast.NotEq)):
                    sides = [n.left, n.comparators[0]]
                    nv = [s for s in sides if isinstance(s, ast.Name) and s.id in node_vars]
                    other = [s for s in sides if s not in nv]
                    if nv:
                        n3 += 1
                        numeric = other and (isinstance(other[0], ast.Attribute) and other[0].attr in
                                             ('upper', 'lower', 'init', 'fix')
                                             or isinstance(other[0], ast.Constant) and isinstance(other[0].value, (int, float))
                                             and other[0].value is not None and not isinstance(other[0].value, bool))
                        chk.instance(P3, f'{cls.name}.{mname}: {unparse(n)} (node vs number: {bool(numeric)})')
                        if numeric:
                            chk.violation(P3, mod.rel, f'{cls.name}.{mname}', unparse(n),
                                          'a parse-tree node (or None) is compared with a number: never equal', line=n.lineno,
                                          witness='$THETA (0,1,10.0) (0,2): changing the second theta re-spells the '
                                                  'unchanged bound 10.0 as 10')
            # uses of is None / truthiness are fine and counted
            for n in ast.walk(f.node):
                if isinstance(n, ast.Compare) and isinstance(n.ops[0], (ast.Is, ast.IsNot)) and isinstance(n.left, ast.Name) \
                        and n.left.id in node_vars:
                    n3 += 1
                    chk.instance(P3, f'{cls.name}.{mname}: {unparse(n)}')
    if n3 < 2:
        raise AnalysisError('P3: no node comparisons found in the record classes')
    # ---------------------------------------------------------------- P4
    um = repo.module(f'{NM}.update')
    ct = um.functions.get('create_theta_record')
    if ct is None:
        raise AnalysisError('create_theta_record not found')

    from sa import strtemplate as ST
    combos = {'both finite': (0.5, 5.0), 'only lower': (0.5, float('inf')), 'only upper': (-float('inf'), 5.0),
              'none': (-float('inf'), float('inf'))}
    pname = ct.params[0]
    for label, (lo, up) in combos.items():
        for fixed in (False, True):
            ev = ST.Eval({f'{pname}.lower': ST.Sym('lower', lo), f'{pname}.upper': ST.Sym('upper', up),
                          f'{pname}.init': ST.Sym('init', 0.3), f'{pname}.fix': fixed, f'{pname}.name': ST.Sym('name')})
            try:
                ev.run(ct.node.body)
            except ST.Undecidable as e:
                raise AnalysisError(f'P4: cannot determine the theta text for the case `{label}`: {e}')
            texts = [a[0] for fn, a in ev.calls if fn == 'create_record' and a and isinstance(a[0], str)]
            if len(texts) != 1:
                raise AnalysisError(f'P4: text passed to create_record not determined for `{label}` ({ev.calls})')
            text = texts[0]
            body = text.split(';')[0].replace('$THETA', '').strip()
            has_fix = body.upper().endswith('FIX')
            if has_fix:
                body = body[:-3].strip()
            tpl = body
            slots = tpl.strip('()').split(',') if tpl.startswith('(') else [tpl]
            chk.instance(P4, f'{label}, fix={fixed}: {text!r}')
            want = {'both finite': ['{lower}', '{init}', '{upper}'], 'only lower': ['{lower}', '{init}'],
                    'only upper': ['-INF', '{init}', '{upper}'], 'none': ['{init}']}[label]
            got = [x.strip().upper() if x.strip().startswith('-') else x.strip() for x in slots]
            if got != want or (tpl.startswith('(') != (len(want) > 1)) or (tpl.startswith('(') and not tpl.endswith(')')):
                chk.violation(P4, um.rel, 'create_theta_record', f'{label}: {tpl}',
                              f'a new theta with {label} bound(s) must be written as {"(" + ",".join(want) + ")" if len(want) > 1 else want[0]}: '
                              f'the reader assigns roles by position (first of two = lower bound)', line=ct.node.lineno,
                              witness='add_population_parameter(model, "P", 0.3, upper=1): the code says (0.3,1) which is re-read '
                                      'as lower=0.3, init=1, upper=inf')
            if has_fix != fixed:
                chk.violation(P4, um.rel, 'create_theta_record', f'{label}: FIX written {has_fix} for fix={fixed}',
                              'the FIX keyword does not follow parameter.fix', line=ct.node.lineno,
                              witness='add a fixed parameter: it is estimated (or an estimated one is fixed)')
            if '{name}' not in text.split(';', 1)[-1]:
                chk.violation(P4, um.rel, 'create_theta_record', text, 'the parameter name comment is missing',
                              line=ct.node.lineno, witness='the new theta is re-read as THETA(n) instead of its name')
    # ---------------------------------------------------------------- P5
    bf = orr.methods.get('_block_flags')
    upd = orr.methods.get('update')
    reader_recursive = bf is not None and any(isinstance(n, ast.For) and "subtrees('omega')" in unparse(n.iter)
                                              and "find('FIX')" in unparse(n) for n in ast.walk(bf.node))
    block_removals = [c for c in ast.walk(upd.node) if isinstance(c, ast.Call) and dotted(c.func) == 'remove_token_and_space'
                      and c.args and unparse(c.args[0]) == 'tree' and "'FIX'" in unparse(c)]
    if not block_removals:
        raise AnalysisError('P5: FIX removal of the block branch not found')
    for c in block_removals:
        rec = any(kw.arg == 'recursive' and isinstance(kw.value, ast.Constant) and kw.value.value is True for kw in c.keywords)
        chk.instance(P5, f'{unparse(c)} (reader looks inside omega items: {reader_recursive})')
        if reader_recursive and not rec:
            chk.violation(P5, om.rel, 'OmegaRecord.update', unparse(c),
                          '_block_flags finds FIX inside the omega items of a block, but unfixing removes only a top level '
                          'FIX token', line=c.lineno,
                          witness='$OMEGA BLOCK(2) 0.1 0.01 0.3 FIX + unfix_parameters: the generated code keeps FIX, re-read '
                                  'parameters are fixed while the model says they are not')
    # ---------------------------------------------------------------- A5
    run_a5(chk, A5, ['theta_record.lark', 'omega_record.lark'])
