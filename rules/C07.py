"""C07 Refactorings preserve the model function: F1 a model-wide symbol substitution covers every symbol-bearing
component of the model."""
from __future__ import annotations

import ast

from sa.classes import init_fields
from sa.report import AnalysisError
from sa.srcmodel import unparse, walk_no_nested, calls_in, dotted

SYMBOL_BEARING = {'parameters': 'parameter names are symbols', 'random_variables': 'eta/eps names and variance symbols',
                  'statements': 'all expressions', 'dependent_variables': 'keys are the observation symbols',
                  'observation_transformation': 'keys and expressions'}


def run(chk, repo, tier):
    chk.explanation = (
        'F1: a function that applies one substitution dictionary to both model.statements and model.random_variables '
        '(a model-wide renaming) must also rewrite the parameters, the dependent variables and the observation '
        'transformation, i.e. every symbol-bearing field of Model (the field list is read from Model.__init__). This is the '
        'only clause of C07 that is visible in code shape. NOT decided (almost everything): semantic preservation of '
        'mu-referencing, make_declarative, cleanup_model, ODE solving, format conversion, gradient extraction: they '
        'rewrite symbolic expressions by run-time substitution and no shape argument bounds them.')
    F1 = chk.rule('F1', 'model-wide substitutions cover parameters, random_variables, statements, dependent_variables and '
                        'observation_transformation', floor=3)
    mc = repo.cls('pharmpy.model.model.Model')
    fields = {f_.lstrip('_') for f_ in init_fields(repo, mc)}
    missing_fields = set(SYMBOL_BEARING) - fields
    if missing_fields:
        raise AnalysisError(f'Model no longer has the fields {sorted(missing_fields)}: update the symbol-bearing table')
    n_sites = 0
    for mod in repo.modules.values():
        if not mod.name.startswith('pharmpy.modeling'):
            continue
        for f in mod.functions.values():
            for c in calls_in(f.node):
                if not (isinstance(c.func, ast.Attribute) and c.func.attr == 'replace'):
                    continue
                kws = {kw.arg: kw.value for kw in c.keywords if kw.arg}
                subs_args = {}
                for k in ('statements', 'random_variables'):
                    v = kws.get(k)
                    if isinstance(v, ast.Call) and isinstance(v.func, ast.Attribute) and v.func.attr == 'subs' and v.args:
                        subs_args[k] = unparse(v.args[0])
                if len(subs_args) == 2 and len(set(subs_args.values())) == 1:
                    n_sites += 1
                    d = list(subs_args.values())[0]
                    covered = set(kws) & set(SYMBOL_BEARING)
                    chk.instance(F1, f'{f.qualname}: model-wide substitution with `{d}` covers {sorted(covered)}')
                    for fld in sorted(set(SYMBOL_BEARING) - covered):
                        chk.violation(F1, mod.rel, f.qualname, f'replace(...) without {fld}=',
                                      f'the substitution `{d}` is applied to statements and random variables but not to '
                                      f'`{fld}` ({SYMBOL_BEARING[fld]})', line=c.lineno,
                                      witness='rename the dependent variable (rename_symbols(model, {"Y": "Z"})): the statement '
                                              'becomes Z = ... but dependent_variables still says {Y: 1}, so the observation of '
                                              'the model is no longer defined by any statement')
    chk.instance(F1, f'Model symbol-bearing fields {sorted(SYMBOL_BEARING)} all exist')
    chk.instance(F1, f'{n_sites} model-wide substitution site(s) in pharmpy.modeling')
    if n_sites == 0:
        raise AnalysisError('F1: no model-wide substitution found (rename_symbols moved?)')
