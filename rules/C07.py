"""C07 Refactorings preserve the model function: F1 a model-wide symbol substitution covers every symbol-bearing
component of the model."""
from __future__ import annotations

import ast

from sa.cfg import CFG
from sa.classes import init_fields
from sa.report import AnalysisError
from sa.srcmodel import unparse, walk_no_nested, calls_in, dotted

SYMBOL_BEARING = {'parameters': 'parameter names are symbols', 'random_variables': 'eta/eps names and variance symbols',
                  'statements': 'all expressions', 'dependent_variables': 'keys are the observation symbols',
                  'observation_transformation': 'keys and expressions'}


def run(chk, repo, tier):
    chk.explanation = (
        'F1: a function that applies one substitution dictionary to both model.statements and model.random_variables '
        '(a model-wide renaming) must also rewrite the parameters, the dependent variables and the observation '
        'transformation, i.e. every symbol-bearing field of Model (the field list is read from Model.__init__). This is the '
        'only clause of C07 that is visible in code shape. NOT decided (almost everything): semantic preservation of '
        'mu-referencing, make_declarative, cleanup_model, ODE solving, format conversion, gradient extraction: they '
        'rewrite symbolic expressions by run-time substitution and no shape argument bounds them.')
    F1 = chk.rule('F1', 'model-wide substitutions cover parameters, random_variables, statements, dependent_variables and '
                        'observation_transformation', floor=3)
    mc = repo.cls('pharmpy.model.model.Model')
    fields = {f_.lstrip('_') for f_ in init_fields(repo, mc)}
    missing_fields = set(SYMBOL_BEARING) - fields
    if missing_fields:
        raise AnalysisError(f'Model no longer has the fields {sorted(missing_fields)}: update the symbol-bearing table')
    n_sites = 0
    for mod in repo.modules.values():
        if not mod.name.startswith('pharmpy.modeling'):
            continue
        for f in mod.functions.values():
            for c in calls_in(f.node):
                if not (isinstance(c.func, ast.Attribute) and c.func.attr == 'replace'):
                    continue
                kws = {kw.arg: kw.value for kw in c.keywords if kw.arg}
                subs_args = {}
                for k in ('statements', 'random_variables'):
                    v = kws.get(k)
                    if isinstance(v, ast.Call) and isinstance(v.func, ast.Attribute) and v.func.attr == 'subs' and v.args:
                        subs_args[k] = unparse(v.args[0])
                if len(subs_args) == 2 and len(set(subs_args.values())) == 1:
                    n_sites += 1
                    d = list(subs_args.values())[0]
                    covered = set(kws) & set(SYMBOL_BEARING)
                    chk.instance(F1, f'{f.qualname}: model-wide substitution with `{d}` covers {sorted(covered)}')
                    for fld in sorted(set(SYMBOL_BEARING) - covered):
                        chk.violation(F1, mod.rel, f.qualname, f'replace(...) without {fld}=',
                                      f'the substitution `{d}` is applied to statements and random variables but not to '
                                      f'`{fld}` ({SYMBOL_BEARING[fld]})', line=c.lineno,
                                      witness='rename the dependent variable (rename_symbols(model, {"Y": "Z"})): the statement '
                                              'becomes Z = ... but dependent_variables still says {Y: 1}, so the observation of '
                                              'the model is no longer defined by any statement')
    chk.instance(F1, f'Model symbol-bearing fields {sorted(SYMBOL_BEARING)} all exist')
    chk.instance(F1, f'{n_sites} model-wide substitution site(s) in pharmpy.modeling')
    if n_sites == 0:
        raise AnalysisError('F1: no model-wide substitution found (rename_symbols moved?)')
    run_more(chk, repo, fields)
    run_f5_f7(chk, repo)
    run_f8(chk, repo)
    run_f9(chk, repo)
    run_f10_f11(chk, repo)
    run_f12(chk, repo)
    run_f13_f14(chk, repo)
    run_f15(chk, repo)
    # subs() / free_symbols of the statement classes must reach every expression field: every refactoring that renames,
    # inlines or substitutes a symbol goes through them (rule D1 of C10)
    from rules.C02b import run_b23
    run_b23(chk, repo)
    from rules.C05 import run_o14
    run_o14(chk, repo)
    from rules.C10 import run_d1
    run_d1(chk, repo, chk.rule('D1', 'symbol accessors (free_symbols, subs) cover every expression field through the matching '
                                     'accessor', floor=10))


# bare-statement calls whose dropped result was read and confirmed harmless
DISCARD_OK = {
    ('pharmpy.model.external.nlmixr.model', 'convert_model', 'update_source'):
        'the code property regenerates the source on access; the stale internals.src is never read',
    ('pharmpy.model.external.rxode.model', 'convert_model', 'update_source'):
        'same as nlmixr',
}
PURE_METHODS = {'subs', 'replace', 'xreplace', 'reassign', 'update_source', 'simplify', 'expand', 'set_initial_estimates',
                'set_column', 'set_types', 'insert_before', 'insert_after', 'remove_symbol_definitions', 'join', 'unjoin',
                'derive', 'fix', 'unfix', 'full_expression'}
FN_FIELDS = ('parameters', 'random_variables', 'statements', 'dependent_variables', 'observation_transformation',
             'dataset', 'datainfo')


def run_more(chk, repo, fields):
    F2 = chk.rule('F2', 'format converters carry every function-defining Model field over to the new model', floor=12)
    F3 = chk.rule('F3', 'get_observation_expression starts from the last assignment of the dependent variable and '
                        'substitutes only definitions that precede it', floor=2)
    F4 = chk.rule('F4', 'results of immutable-API calls (subs, replace, reassign, update_source, model-returning modeling '
                        'functions) are not discarded', floor=400)
    # ---------------------------------------------------------------- F2
    for modname in ('pharmpy.model.external.generic.generic', 'pharmpy.model.external.nonmem.model'):
        m = repo.module(modname)
        f = m.functions.get('convert_model')
        if f is None:
            raise AnalysisError(f'{modname}.convert_model not found')
        src = f.params[0]
        carried: dict[str, str] = {}
        for n in walk_no_nested(f.node):
            if isinstance(n, ast.Call) and (dotted(n.func) == 'Model' or (isinstance(n.func, ast.Attribute)
                                                                          and n.func.attr == 'replace')):
                for kw in n.keywords:
                    if kw.arg:
                        carried[kw.arg] = unparse(kw.value)
                    elif isinstance(kw.value, ast.DictComp):
                        # **{attr: getattr(model, attr) for attr in TUPLE}
                        gen = kw.value.generators[0]
                        seq = gen.iter
                        if isinstance(seq, ast.Name):
                            seq = m.globals_.get(seq.id)
                        if not isinstance(seq, (ast.Tuple, ast.List)):
                            raise AnalysisError(f'F2: cannot resolve the attribute list in {unparse(n)[:80]}')
                        for e in seq.elts:
                            if isinstance(e, ast.Constant):
                                carried[e.value] = f'getattr({src}, {e.value!r})'
            if isinstance(n, ast.Assign) and isinstance(n.targets[0], ast.Attribute) \
                    and n.targets[0].attr.startswith('_') and isinstance(n.value, ast.Attribute):
                carried[n.targets[0].attr.lstrip('_')] = unparse(n.value)
        for fld in FN_FIELDS:
            if fld not in fields:
                raise AnalysisError(f'Model has no field {fld}')
            v = carried.get(fld)
            from_src = v is not None and (f'{src}.{fld}' in v or f'getattr({src}, {fld!r})' == v)
            chk.instance(F2, f'{modname}.convert_model: {fld} <- {v}')
            if v is None:
                chk.violation(F2, m.rel, 'convert_model', f'{fld} not carried over',
                              f'the converted model is built without `{fld}` of the source model (default is used)',
                              line=f.node.lineno,
                              witness='set_dtbs_error_model(model) then convert_model(model, "generic"): the transformed '
                                      'observation of the source model becomes the identity')
            elif not from_src:
                chk.violation(F2, m.rel, 'convert_model', f'{fld} = {v}',
                              f'`{fld}` of the converted model is not taken from the source model', line=f.node.lineno,
                              advisory=True, witness='a source model with a non-default value of this field')
    # ---------------------------------------------------------------- F3
    em = repo.module('pharmpy.modeling.expressions')
    f = em.functions.get('get_observation_expression')
    if f is None:
        raise AnalysisError('get_observation_expression not found')
    loops = [n for n in walk_no_nested(f.node) if isinstance(n, ast.For)]
    search = next((L for L in loops if any(isinstance(x, ast.Break) for x in ast.walk(L))), None)
    ivar = unparse(search.target).split(',')[0].strip('( ') if search is not None else None
    if search is None:
        # the search may live in a helper of the module: `idx = helper(stats, dv)` whose loop returns its loop variable
        for a in [x for x in walk_no_nested(f.node) if isinstance(x, ast.Assign) and isinstance(x.value, ast.Call)
                  and isinstance(x.targets[0], ast.Name)]:
            g = em.functions.get(dotted(a.value.func) or '')
            if g is None:
                continue
            for L in [n for n in walk_no_nested(g.node) if isinstance(n, ast.For)]:
                lv = {x.id for x in ast.walk(L.target) if isinstance(x, ast.Name)}
                if any(isinstance(r, ast.Return) and isinstance(r.value, ast.Name) and r.value.id in lv for r in ast.walk(L)):
                    search, ivar = L, a.targets[0].id
    if search is None:
        raise AnalysisError('F3: search loop for the DV statement not recognised')

    def descending(it):
        if isinstance(it, ast.Call) and dotted(it.func) == 'reversed':
            return True
        if isinstance(it, ast.Call) and dotted(it.func) == 'range' and len(it.args) == 3:
            st_ = it.args[2]
            return isinstance(st_, ast.UnaryOp) and isinstance(st_.op, ast.USub)
        return False
    ok = descending(search.iter)
    chk.instance(F3, f'DV statement search `for {unparse(search.target)} in {unparse(search.iter)}` runs from the end: {ok}')
    if not ok:
        chk.violation(F3, em.rel, f.qualname, f'for {unparse(search.target)} in {unparse(search.iter)}',
                      'the first assignment of the dependent variable is used; a later re-assignment (Y = Y*2, IF-blocks '
                      'split into several statements) is ignored', line=search.lineno,
                      witness='$PRED with Y = IPRED + EPS(1) followed by Y = Y*2: the observation expression, the '
                              'predictions and the gradients are those of the first statement')
    # the index may be handed on under another name (`dv_index = i; break`)
    ivars = {ivar} | {a_.targets[0].id for a_ in ast.walk(search) if isinstance(a_, ast.Assign)
                      and isinstance(a_.targets[0], ast.Name) and isinstance(a_.value, ast.Name) and a_.value.id == ivar}
    fe = [c for c in calls_in(f.node) if isinstance(c.func, ast.Attribute) and c.func.attr == 'full_expression']
    subs_loops = [L for L in loops if L is not search and any(
        isinstance(c, ast.Call) and isinstance(c.func, ast.Attribute) and c.func.attr == 'subs' for c in ast.walk(L))]
    bounded = False
    desc = ''
    for L in subs_loops:
        it = L.iter
        if ivars & {x.id for x in ast.walk(it) if isinstance(x, ast.Name)} and descending(it):
            bounded = True
            desc = f'for {unparse(L.target)} in {unparse(it)}'
    for c in fe:
        recv = c.func.value
        if isinstance(recv, ast.Subscript) and isinstance(recv.slice, ast.Slice) and recv.slice.upper is not None \
                and ivars & {x.id for x in ast.walk(recv.slice.upper) if isinstance(x, ast.Name)}:
            bounded = True
            desc = unparse(c)
        else:
            bounded = False
            desc = unparse(c)
            break
    chk.instance(F3, f'back-substitution bounded by the DV statement index `{ivar}`: {bounded} ({desc})')
    if not bounded:
        chk.violation(F3, em.rel, f.qualname, desc or 'back-substitution',
                      'definitions that come after the dependent variable statement are substituted into it', line=f.node.lineno,
                      witness='Y = IPRED + W*EPS(1) followed by IPRED = LOG(IPRED + 0.001): the extracted observation, '
                              'prediction and gradient expressions use the later IPRED')
    # ---------------------------------------------------------------- F4
    mm = repo.module('pharmpy.modeling')
    allv = mm.globals_.get('__all__')
    exported = {e.value for e in allv.elts if isinstance(e, ast.Constant)} if isinstance(allv, (ast.List, ast.Tuple)) else set()
    returning_model = set()
    for name in exported:
        r = repo.resolve(mm, name)
        if not (r and r[0] == 'func'):
            continue
        g = r[1]
        if g.node.returns is not None and unparse(g.node.returns) in ('Model', 'pharmpy.model.Model'):
            returning_model.add(name)
        elif g.node.returns is None and g.params and g.params[0] == 'model' and any(
                isinstance(n, ast.Return) and n.value is not None and (
                    unparse(n.value) == 'model' or unparse(n.value).startswith(('model.update_source(', 'model.replace(')))
                for n in walk_no_nested(g.node)):
            returning_model.add(name)
    # functions whose purpose is a side effect (files); their returned model is optional for the caller
    returning_model -= {n for n in returning_model if n.startswith(('write_', 'print_', 'bump_'))}
    used = 0
    for fn in repo.all_funcs():
        for s_ in walk_no_nested(fn.node):
            for c in ([s_.value] if isinstance(s_, ast.Expr) and isinstance(s_.value, ast.Call) else []):
                what = None
                if isinstance(c.func, ast.Attribute) and c.func.attr in PURE_METHODS:
                    if any(k.arg == 'inplace' for k in c.keywords) or dotted(c.func) in ('os.replace', 'os.path.join'):
                        continue
                    what = c.func.attr
                elif isinstance(c.func, ast.Name) and c.func.id in returning_model:
                    what = c.func.id
                if what is None:
                    continue
                exc = DISCARD_OK.get((fn.module.name, fn.name, what))
                outside = fn.module.name == 'pharmpy.cli'
                chk.violation(F4, fn.module.rel, fn.qualname, unparse(s_)[:100],
                              f'the result of `{what}` is dropped (pharmpy objects are immutable, the call has no effect)'
                              + (f' [listed: {exc}]' if exc else '') + (' [command line front end, outside this property]'
                                                                       if outside else ''),
                              line=s_.lineno, advisory=bool(exc) or outside,
                              witness='a symbol assigned before the ODE system and re-assigned after it (CL = CL*24 in '
                                      '$ERROR) with make_declarative: the substituted ODE system is thrown away and the rates '
                                      'refer to a symbol that is only defined afterwards')
        for c in calls_in(fn.node):
            if (isinstance(c.func, ast.Attribute) and c.func.attr in PURE_METHODS) or \
                    (isinstance(c.func, ast.Name) and c.func.id in returning_model):
                used += 1
    chk.instance(F4, f'calls of immutable-API methods / model-returning functions examined', n=used)
    chk.extra['model_returning_functions'] = len(returning_model)
    if len(returning_model) < 50:
        raise AnalysisError(f'F4: only {len(returning_model)} model-returning modeling functions recognised')


def _explicit_arg_paths(fnode, param):
    """enumerate the structured paths of the function prefix that decide which value a mirror local of `param` gets when
    the argument is given (not None). Returns [(mirror, final source text)] over all paths."""
    results = []

    def val_none(v):
        # None-ness of an abstract value: 'P' (given, not None) -> False; others unknown
        return False if v == 'P' else None

    def test_value(t, env):
        # decide `X is None` / `X is not None` for X the parameter or a tracked local
        if isinstance(t, ast.Compare) and len(t.ops) == 1 and isinstance(t.comparators[0], ast.Constant) \
                and t.comparators[0].value is None and isinstance(t.left, ast.Name):
            nm = t.left.id
            if nm == param:
                isnone = False
            elif nm in env:
                isnone = val_none(env[nm])
            else:
                return None
            if isnone is None:
                return None
            return isnone if isinstance(t.ops[0], ast.Is) else (not isnone)
        return None

    def expr_value(e, env):
        if isinstance(e, ast.Name) and e.id == param:
            return 'P'
        if isinstance(e, ast.Name) and e.id in env:
            return env[e.id]
        if isinstance(e, ast.IfExp):
            tv = test_value(e.test, env)
            if tv is True:
                return expr_value(e.body, env)
            if tv is False:
                return expr_value(e.orelse, env)
            a, b = expr_value(e.body, env), expr_value(e.orelse, env)
            return a if a == b else f'either({a}|{b})'
        return 'other:' + unparse(e)[:40]

    def run(stmts, env, k):
        if not stmts:
            return k(env)
        s_, rest = stmts[0], stmts[1:]
        if isinstance(s_, ast.Assign) and len(s_.targets) == 1 and isinstance(s_.targets[0], ast.Name):
            env2 = dict(env)
            env2[s_.targets[0].id] = expr_value(s_.value, env)
            return run(rest, env2, k)
        if isinstance(s_, ast.If):
            tv = test_value(s_.test, env)
            branches = [s_.body] if tv is True else [s_.orelse] if tv is False else [s_.body, s_.orelse]
            for b in branches:
                run(list(b) + rest, env, k)
            return
        if isinstance(s_, (ast.Return, ast.Raise)):
            return k(env)
        return run(rest, env, k)
    run(list(fnode.body), {}, lambda env: results.append(dict(env)))
    return results


def run_f5_f7(chk, repo):
    F5 = chk.rule('F5', 'evaluators: an explicitly passed optional argument (etas, dataset) is the value that is used', floor=4)
    F6 = chk.rule('F6', 'simplify_expression: the sympy assumption of a parameter follows from its bound (lower > 0 positive, '
                        'lower >= 0 nonnegative, upper < 0 negative, upper <= 0 nonpositive)', floor=4)
    F7 = chk.rule('F7', 'code generation: symbols of generated and of kept statements are both recorded as defined', floor=2)
    em = repo.module('pharmpy.modeling.evaluation')
    for f in em.functions.values():
        for param in ('etas', 'dataset'):
            if param not in f.all_params:
                continue
            # mirror locals: assigned from an expression mentioning the parameter
            mirrors = {n.targets[0].id for n in walk_no_nested(f.node) if isinstance(n, ast.Assign)
                       and isinstance(n.targets[0], ast.Name) and n.targets[0].id != param
                       and param in {x.id for x in ast.walk(n.value) if isinstance(x, ast.Name)}
                       and (isinstance(n.value, (ast.Name, ast.IfExp)))}
            if not mirrors:
                continue
            paths = _explicit_arg_paths(f.node, param)
            for mvar in sorted(mirrors):
                finals = sorted({p.get(mvar, 'unassigned') for p in paths})
                ok = finals == ['P']
                chk.instance(F5, f'{f.name}({param}=given): `{mvar}` ends as {finals}')
                if not ok:
                    chk.violation(F5, em.rel, f.name, f'{mvar} <- {finals} when {param} is given',
                                  f'with `{param}` passed explicitly some path binds `{mvar}` to another source',
                                  line=f.node.lineno,
                                  witness='a model that carries initial individual estimates and a call with etas=E different '
                                          'from them: the gradient is evaluated at the stored estimates, not at E')
    xm = repo.module('pharmpy.modeling.expressions')
    sf = xm.functions.get('_simplify_expression_from_parameters')
    if sf is None:
        raise AnalysisError('_simplify_expression_from_parameters not found')
    WANT = {('lower', 'Gt'): 'positive', ('lower', 'GtE'): 'nonnegative', ('upper', 'Lt'): 'negative',
            ('upper', 'LtE'): 'nonpositive'}
    n6 = 0
    # the bound tests may live in a helper of the module that sf calls (its result passed as **assumptions)
    scope = [sf.node] + [xm.functions[dotted(c.func)].node for c in calls_in(sf.node) if dotted(c.func) in xm.functions]
    for n in [x for fn_ in scope for x in ast.walk(fn_)]:
        if isinstance(n, ast.If) and isinstance(n.test, ast.Compare) and isinstance(n.test.left, ast.Attribute) \
                and n.test.left.attr in ('lower', 'upper') and isinstance(n.test.comparators[0], ast.Constant) \
                and n.test.comparators[0].value == 0:
            key = (n.test.left.attr, type(n.test.ops[0]).__name__)
            kws = {k.arg for s_ in n.body for c in ast.walk(s_) if isinstance(c, ast.Call)
                   and (dotted(c.func) or '').endswith('Symbol') for k in c.keywords
                   if isinstance(k.value, ast.Constant) and k.value.value is True} - {'real'}
            kws |= {k.value for s_ in n.body for d_ in ast.walk(s_) if isinstance(d_, ast.Dict)
                    for k, v in zip(d_.keys, d_.values) if isinstance(k, ast.Constant) and isinstance(v, ast.Constant)
                    and v.value is True} - {'real'}
            n6 += 1
            want = WANT.get(key)
            chk.instance(F6, f'if p.{key[0]} {unparse(n.test)[len("p." + key[0]):].strip()}: assumptions {sorted(kws)} (wanted {want})')
            if want is None or kws != {want}:
                chk.violation(F6, xm.rel, sf.name, f'{unparse(n.test)}: {sorted(kws)}',
                              f'a parameter with this bound is only known to be {want}', line=n.lineno,
                              witness='a theta with bound (0, init): Piecewise((1, THETA > 0), (0, True)) is simplified to 1 '
                                      'although THETA = 0 is allowed')
    if n6 < 4:
        raise AnalysisError(f'F6: only {n6} bound branches recognised')
    from sa import lints
    crm = repo.module('pharmpy.model.external.nonmem.records.code_record')
    us = crm.classes['CodeRecord'].methods.get('update_statements')
    loop = next((n for n in walk_no_nested(us.node) if isinstance(n, ast.For) and isinstance(n.target, ast.Tuple)
                 and any(isinstance(c, ast.Call) and unparse(c.func) == 'defined_symbols.add' for c in ast.walk(n))), None)
    if loop is None:
        raise AnalysisError('F7: loop over the statement diff not found')
    opvar = loop.target.elts[0].id

    def target(s_):
        return isinstance(s_, ast.Expr) and isinstance(s_.value, ast.Call) and unparse(s_.value.func) == 'defined_symbols.add'
    for op, want in ((1, True), (0, True), (-1, False)):
        may, _ = lints.exec_under(loop.body, {opvar: op}, target)
        chk.instance(F7, f'op {op:+d}: defined_symbols.add(...) reachable: {may} (wanted {want})')
        if may != want:
            chk.violation(F7, crm.rel, us.qualname, f'op {op:+d}: defined_symbols.add reachable {may}',
                          'the printer decides with defined_symbols whether a trailing (0, True) branch of a Piecewise is the '
                          'reader\'s default (dropped) or a real ELSE X = 0; symbols of statements kept verbatim must count as '
                          'defined', line=loop.lineno,
                          witness='X assigned by an untouched statement, then a regenerated IF ... ELSE X = 0 block: the ELSE '
                                  'branch is dropped and X keeps its old value')


def run_f8(chk, repo):
    F8 = chk.rule('F8', 'make_declarative: every statement that is emitted and every definition that is kept pending has the '
                        'pending substitutions applied', floor=5)
    xm = repo.module('pharmpy.modeling.expressions')
    for fname in ('make_declarative', 'cleanup_model'):
        _f8_one(chk, F8, xm, fname)


def _f8_one(chk, F8, xm, fname):
    f = xm.functions.get(fname)
    if f is None:
        raise AnalysisError(f'{fname} not found')
    # the pending-substitution dictionary: subscript-assigned inside a loop and passed to .subs()
    pend = None
    for n in ast.walk(f.node):
        if isinstance(n, ast.Assign) and isinstance(n.targets[0], ast.Subscript) and isinstance(n.targets[0].value, ast.Name):
            cand = n.targets[0].value.id
            if any(isinstance(c, ast.Call) and isinstance(c.func, ast.Attribute) and c.func.attr == 'subs' and c.args
                   and unparse(c.args[0]) == cand for c in ast.walk(f.node)):
                pend = cand
    loops = [L for L in walk_no_nested(f.node) if isinstance(L, ast.For) and pend and any(
        isinstance(c, ast.Call) and isinstance(c.func, ast.Attribute) and c.func.attr == 'append' for c in ast.walk(L))
        and pend in {x.id for x in ast.walk(L) if isinstance(x, ast.Name)}]
    if pend is None or not loops:
        raise AnalysisError(f'F8: pending-substitution dictionary / emitting loop of {fname} not recognised')
    L = loops[-1]

    from sa import reach
    cfg = CFG(f.node)

    def has_subs_direct(e):
        return any(isinstance(c, ast.Call) and isinstance(c.func, ast.Attribute) and c.func.attr == 'subs' and c.args
                   and unparse(c.args[0]) == pend for c in ast.walk(e))

    def has_subs(e, at=None):
        # local temporaries are resolved through their reaching definitions (x = e.subs(d); ...append(f(x)))
        nid = reach.node_of(cfg, at) if at is not None else None
        return reach.holds(cfg, nid, e, has_subs_direct) if nid is not None else has_subs_direct(e)

    def check_block(stmts):
        for i, s_ in enumerate(stmts):
            if isinstance(s_, ast.If):
                check_block(s_.body)
                check_block(s_.orelse)
                continue
            if isinstance(s_, ast.Assign) and isinstance(s_.targets[0], ast.Subscript) \
                    and isinstance(s_.targets[0].value, ast.Name) and s_.targets[0].value.id == pend:
                ok = has_subs(s_.value, s_)
                chk.instance(F8, f'pending definition `{unparse(s_)[:70]}` has the earlier substitutions applied: {ok}')
                if not ok:
                    chk.violation(F8, xm.rel, f.name, unparse(s_),
                                  f'the definition kept in `{pend}` still refers to symbols whose own pending definitions are in '
                                  f'`{pend}`; when it is substituted later those symbols have other values', line=s_.lineno,
                                  witness='X = 1; Z = X; X = X + 1; Z = Z + X: make_declarative gives Z = 2*X = 4 instead of 3')
            if isinstance(s_, ast.Expr) and isinstance(s_.value, ast.Call) and isinstance(s_.value.func, ast.Attribute) \
                    and s_.value.func.attr == 'append' and s_.value.args:
                a = s_.value.args[0]
                ok = has_subs(a, s_)
                chk.instance(F8, f'emitted `{unparse(s_)[:60]}` has the pending substitutions applied: {ok}')
                if not ok:
                    chk.violation(F8, xm.rel, f.name, unparse(s_),
                                  'a statement is emitted without the pending substitutions: it refers to symbols whose '
                                  'definition was removed or moved after it', line=s_.lineno,
                                  witness='CL defined in $PK, used by the ODE system and re-assigned in $ERROR: after '
                                          'make_declarative the ODE rates use a CL that is only defined afterwards')
    check_block(L.body)


def run_f9(chk, repo):
    F9 = chk.rule('F9', 'setting random effects to zero uses the complete sets (random_variables.etas / .epsilons), not one '
                        'variability level', floor=2)
    n = 0
    for modname in ('pharmpy.modeling.expressions', 'pharmpy.modeling.evaluation'):
        m = repo.module(modname)
        for f in m.functions.values():
            for dc in [x for x in ast.walk(f.node) if isinstance(x, (ast.DictComp, ast.ListComp, ast.GeneratorExp, ast.SetComp))]:
                it = dc.generators[0].iter
                txt = unparse(it)
                if 'random_variables.' not in txt or not txt.endswith(('.names', '.symbols')):
                    continue
                zero = isinstance(dc, ast.DictComp) and isinstance(dc.value, ast.Constant) and dc.value.value == 0
                if not zero:
                    continue
                n += 1
                attr = txt.split('random_variables.')[1].split('.')[0]
                ok = attr in ('etas', 'epsilons')
                chk.instance(F9, f'{f.name}: zero substitution over random_variables.{attr}: complete set {ok}')
                if not ok:
                    chk.violation(F9, m.rel, f.name, unparse(dc)[:100],
                                  f'only the `{attr}` level is set to zero; the other etas stay in the "population" expression',
                                  line=dc.lineno,
                                  witness='a $PRED model with inter-occasion variability (add_iov): the population prediction '
                                          'still contains the IOV etas and differs from the individual prediction at eta = 0')
    if n < 2:
        raise AnalysisError(f'F9: only {n} zero-substitutions of random effects found')


def _dom_of(v, doms):
    if isinstance(v, ast.Call):
        fn = dotted(v.func) or ''
        if fn.startswith('Expr.') or fn == 'Expr':
            return 'pharmpy Expr'
        if isinstance(v.func, ast.Attribute) and v.func.attr == '_sympy_':
            return 'sympy'
        if fn.startswith('sympy.') and fn.split('.')[-1] in ('Symbol', 'sympify', 'Function', 'Integer', 'Float', 'exp', 'log',
                                                             'Piecewise', 'Add', 'Mul'):
            return 'sympy'
    if isinstance(v, ast.Name):
        return doms.get(v.id)
    return None


def run_f10_f11(chk, repo):
    F10 = chk.rule('F10', 'functions that act on thetas restrict their parameter loop to thetas', floor=1)
    F11 = chk.rule('F11', 'membership tests compare symbols of one library (pharmpy Expr versus sympy) - a mixed test is '
                          'always False', floor=50)
    pm = repo.module('pharmpy.modeling.parameters')
    n10 = 0
    for name, f in pm.functions.items():
        if 'thetas' not in name or name.startswith('get_'):
            continue
        loops = [L for L in walk_no_nested(f.node) if isinstance(L, ast.For) and unparse(L.iter) == 'model.parameters']
        for L in loops:
            n10 += 1
            txt = unparse(f.node)
            ok = 'get_thetas' in txt or 'theta' in ' '.join(unparse(t.test) for t in ast.walk(L) if isinstance(t, ast.If))
            chk.instance(F10, f'{name}: loop over model.parameters restricted to thetas: {ok}')
            if not ok:
                chk.violation(F10, pm.rel, name, f'for {unparse(L.target)} in model.parameters',
                              'omegas and sigmas are treated like thetas', line=L.lineno,
                              witness='a model with a FIXed omega: replace_fixed_thetas removes the omega from the parameters and '
                                      'update_source raises KeyError')
    if n10 == 0:
        raise AnalysisError('F10: no theta function with a parameter loop found')
    n11 = 0
    for f in repo.all_funcs():
        if not f.module.name.startswith(('pharmpy.modeling', 'pharmpy.model.', 'pharmpy.tools')):
            continue
        doms = {}
        for a in walk_no_nested(f.node):
            if isinstance(a, ast.Assign) and len(a.targets) == 1 and isinstance(a.targets[0], ast.Name):
                d = _dom_of(a.value, doms)
                if d:
                    cur = doms.get(a.targets[0].id)
                    doms[a.targets[0].id] = d if cur in (None, d) else 'mixed'
        for c in walk_no_nested(f.node):
            if isinstance(c, ast.Compare) and len(c.ops) == 1 and isinstance(c.ops[0], (ast.In, ast.NotIn)):
                r = c.comparators[0]
                if not (isinstance(r, ast.Attribute) and r.attr in ('free_symbols', 'atoms', 'args')):
                    continue
                n11 += 1
                l, rd = _dom_of(c.left, doms), _dom_of(r.value, doms)
                if l and rd and l != rd and 'mixed' not in (l, rd):
                    chk.violation(F11, f.module.rel, f.qualname, unparse(c),
                                  f'`{unparse(c.left)}` is a {l} symbol, `{unparse(r.value)}` a {rd} expression: the test can '
                                  f'never be true', line=c.lineno,
                                  witness='mu_reference_model applied twice: the "already mu-referenced" test is never true, the '
                                          'second call defines mu_1 = 0 and CL = exp(ETA_1 + 2*mu_1)')
    chk.instance(F11, 'membership tests against free_symbols/atoms/args examined', n=n11)


def run_f12(chk, repo):
    F12 = chk.rule('F12', 'a dose amount that becomes an initial amount is scaled by the bioavailability of its compartment',
                   floor=1)
    om = repo.module('pharmpy.modeling.odes')
    f = om.functions.get('get_initial_conditions')
    if f is None:
        raise AnalysisError('get_initial_conditions not found')
    # d[A(t0)] = <dose>.amount ...: the dose may be written comp.doses[0] or held in a local bound to it
    from sa import reach
    cfg = CFG(f.node)
    sites = []
    # every way a value is put into the result mapping (d[k] = v, d.update(pairs / dict), comprehension): sa/reach.mapping_stores
    for a, v in reach.mapping_stores(f.node):
        nid = reach.node_of(cfg, a)
        val = reach.expand_expr(cfg, nid, v) if nid is not None else v
        if any(isinstance(x, ast.Attribute) and x.attr == 'amount' and 'doses' in unparse(x.value) for x in ast.walk(val)):
            sites.append((a, val))
    if not sites:
        raise AnalysisError('F12: assignment of the dose amount to an initial condition not found')
    for a, val in sites:
        ok = any(isinstance(x, ast.Attribute) and x.attr == 'bioavailability' for x in ast.walk(val))
        chk.instance(F12, f'get_initial_conditions: `{unparse(val)[:80]}` uses the bioavailability: {ok}')
        if not ok:
            chk.violation(F12, om.rel, f.name, unparse(a)[:100],
                          'the amount that enters the compartment is dose * F; the closed-form solution built from these initial '
                          'conditions ignores F', line=a.lineno,
                          witness='add_bioavailability(pheno) then solve_ode_system: A_CENTRAL(t) = AMT*exp(-CL*t/V) without F1')


def _body_paths(stmts, interesting, limit=512):
    """structured paths through a loop body as lists of the `interesting` statements met; If forks, continue/break/return/
    raise end a path, inner loops are taken zero or one time"""
    paths = [([], False)]
    for s_ in stmts:
        new = []
        for ev, done in paths:
            if done:
                new.append((ev, True))
                continue
            if interesting(s_):
                ev = ev + [s_]
            if isinstance(s_, ast.If):
                for branch in (s_.body, s_.orelse):
                    for ev2, d2 in _body_paths(branch, interesting, limit):
                        new.append((ev + ev2, d2))
            elif isinstance(s_, (ast.For, ast.While)):
                new.append((ev, False))
                for ev2, d2 in _body_paths(s_.body, interesting, limit):
                    new.append((ev + ev2, False))
            elif isinstance(s_, (ast.Continue, ast.Break, ast.Return, ast.Raise)):
                new.append((ev, True))
            elif isinstance(s_, (ast.With, ast.Try)):
                for ev2, d2 in _body_paths(s_.body, interesting, limit):
                    new.append((ev + ev2, d2))
            else:
                new.append((ev, False))
        paths = new[:limit]
    return paths


def run_f13_f14(chk, repo):
    """F13: mu_reference_model shifts its insertion offset exactly when it replaces one statement by two; F14: a random
    variable is replaced by 0 only when every variance parameter is fixed to zero (truth table)"""
    from sa import tables as T
    F13 = chk.rule('F13', 'mu_reference_model: the index offset grows on exactly the paths that splice two statements in for '
                          'one', floor=1)
    xm = repo.module('pharmpy.modeling.expressions')
    f = xm.functions.get('mu_reference_model')
    if f is None:
        raise AnalysisError('mu_reference_model not found')
    loops = [L for L in walk_no_nested(f.node) if isinstance(L, ast.For) and any(
        isinstance(a, ast.AugAssign) and isinstance(a.op, ast.Add) for a in ast.walk(L))]
    n13 = 0
    for L in loops:
        incs = [a for a in ast.walk(L) if isinstance(a, ast.AugAssign) and isinstance(a.op, ast.Add)
                and isinstance(a.target, ast.Name) and isinstance(a.value, ast.Constant) and a.value.value == 1]
        for inc in incs:
            off = inc.target.id
            # splices: X = X[0:k] + a + b + X[k + 1:] where k is computed from the offset
            splices = [a for a in ast.walk(L) if isinstance(a, ast.Assign) and isinstance(a.targets[0], ast.Name)
                       and sum(1 for x in ast.walk(a.value) if isinstance(x, ast.Subscript) and isinstance(x.slice, ast.Slice)
                               and unparse(x.value) == a.targets[0].id) >= 2]
            if not splices:
                continue
            n13 += 1
            bad = None
            for ev, _d in _body_paths(L.body, lambda s_: s_ is inc or any(s_ is sp for sp in splices)):
                ni = sum(1 for e in ev if e is inc)
                ns = sum(1 for e in ev if e is not inc)
                if ni != ns:
                    bad = (ni, ns)
            chk.instance(F13, f'mu_reference_model: `{unparse(inc)}` and the splice of `{splices[0].targets[0].id}` happen on the '
                              f'same paths: {bad is None}')
            if bad is not None:
                chk.violation(F13, xm.rel, f.name, f'{unparse(inc)} on a path with {bad[1]} splice(s)',
                              f'`{off}` counts the statements inserted so far; it advances on a path that inserts nothing (or not '
                              f'on one that does), so later insertions land on the wrong statement and overwrite it',
                              line=inc.lineno,
                              witness='a partly mu-referenced model (mu_reference_model, add_iiv, mu_reference_model again): an '
                                      'unrelated statement such as V = VC is replaced')
    if n13 == 0:
        raise AnalysisError('F13: offset / splice of mu_reference_model not recognised')
    F14 = chk.rule('F14', 'replace_non_random_rvs: a distribution is kept unless the variance parameter is fixed AND zero '
                          '(truth table of the keep test)', floor=4)
    rm = repo.module('pharmpy.modeling.random_variables')
    g = rm.functions.get('replace_non_random_rvs')
    if g is None:
        raise AnalysisError('replace_non_random_rvs not found')
    # the keep decision: `if <test>: keep.append(dist)`. The test is either written on the parameter itself (inside the loop
    # over the parameters) or quantified over them (`not all(map(is_fixed_to_zero, names))`, `any(not f(p) for p in names)`),
    # with the per-parameter predicate in a local function or lambda. For a distribution with one parameter both say:
    # keep iff K(init, fix); K is extracted and its truth table evaluated.
    from sa import reach as _reach
    local_fns = _reach.local_callables(g.node)

    def fn_body(fexpr):
        d = local_fns.get(fexpr.id) if isinstance(fexpr, ast.Name) else fexpr if isinstance(fexpr, ast.Lambda) else None
        if isinstance(d, ast.Lambda):
            return d.body
        if isinstance(d, ast.FunctionDef):
            rets = [r.value for r in ast.walk(d) if isinstance(r, ast.Return) and r.value is not None]
            return rets[0] if len(rets) == 1 else None
        return None

    def per_param(t):
        neg = False
        while isinstance(t, ast.UnaryOp) and isinstance(t.op, ast.Not):
            t, neg = t.operand, not neg
        if isinstance(t, ast.Call) and dotted(t.func) in ('all', 'any') and len(t.args) == 1:
            a_ = t.args[0]
            body = None
            if isinstance(a_, ast.Call) and dotted(a_.func) == 'map' and len(a_.args) == 2:
                body = fn_body(a_.args[0])
            elif isinstance(a_, (ast.GeneratorExp, ast.ListComp)) and len(a_.generators) == 1 and not a_.generators[0].ifs:
                e_ = a_.elt
                n2 = False
                while isinstance(e_, ast.UnaryOp) and isinstance(e_.op, ast.Not):
                    e_, n2 = e_.operand, not n2
                body = fn_body(e_.func) if isinstance(e_, ast.Call) and isinstance(e_.func, (ast.Name, ast.Lambda)) else e_
                neg = neg != n2
            if body is None:
                return None
            return body, neg
        return t, neg
    tests = []
    for I in ast.walk(g.node):
        if isinstance(I, ast.If) and any(isinstance(c, ast.Call) and isinstance(c.func, ast.Attribute) and c.func.attr == 'append'
                                         for s_ in I.body for c in ast.walk(s_)):
            pp = per_param(I.test)
            if pp is not None and {'init', 'fix'} <= {x.attr for x in ast.walk(pp[0]) if isinstance(x, ast.Attribute)}:
                tests.append((I, pp[0], pp[1]))
    if not tests:
        raise AnalysisError('F14: keep test of replace_non_random_rvs not found')
    for I, pred, neg in tests:
        pv = next(unparse(x.value) for x in ast.walk(pred) if isinstance(x, ast.Attribute) and x.attr == 'init')
        for init, fix in ((0.0, True), (0.0, False), (0.5, True), (0.5, False)):
            try:
                keep = bool(T.eval_pred(pred, {f'{pv}.init': init, f'{pv}.fix': fix})) != neg
            except T.Undecidable as e:
                raise AnalysisError(f'F14: keep test not evaluable: {e}')
            want = not (init == 0.0 and fix)
            chk.instance(F14, f'init={init}, fix={fix}: kept {keep} (wanted {want})')
            if keep != want:
                chk.violation(F14, rm.rel, g.name, f'if {unparse(I.test)}: init={init}, fix={fix} -> kept={keep}',
                              'only a variance fixed to zero makes the random variable a constant; this case is decided '
                              'the other way', line=I.lineno,
                              witness='$SIGMA 1 FIX (or a fixed omega) then cleanup_model: the epsilon is replaced by 0 and '
                                      'its variance parameter dropped')


def run_f15(chk, repo):
    """F15: the evaluate_* functions work on "the dataset of the model, or the one given as argument": after the one place that
    resolves this (`df = model.dataset if dataset is None else dataset`) everything is computed from the resolved frame. A later
    read of model.dataset (directly or in a helper that gets the model) uses the individuals / records of the model's own data
    for a dataset that was passed in"""
    F15 = chk.rule('F15', 'modeling/evaluation.py: a function with a `dataset` argument reads model.dataset only where it resolves '
                          'the default of that argument', floor=4)
    em = repo.module('pharmpy.modeling.evaluation')
    n = 0
    for f in dict.values(em.functions):
        if f.parent is not None or 'dataset' not in f.all_params or 'model' not in f.all_params:
            continue
        n += 1
        reads = [a for a in ast.walk(f.node) if isinstance(a, ast.Attribute) and a.attr in ('dataset', '_dataset')
                 and isinstance(a.value, ast.Name) and a.value.id == 'model']
        # the resolving expression: a conditional (expression or statement) that tests `dataset is None`
        resolving = set()
        for x in ast.walk(f.node):
            if isinstance(x, (ast.IfExp, ast.If)) and 'dataset' in {y.id for y in ast.walk(x.test) if isinstance(y, ast.Name)}:
                for part in ([x.body, x.orelse] if isinstance(x, ast.IfExp) else x.body + x.orelse):
                    for y in ast.walk(part):
                        resolving.add(id(y))
        stray = [a for a in reads if id(a) not in resolving]
        chk.instance(F15, f'{f.qualname}: {len(reads)} reads of model.dataset, outside the resolution of the argument: {len(stray)}')
        for a in stray:
            chk.violation(F15, em.rel, f.qualname, unparse(a),
                          'model.dataset is read although a dataset may have been passed in: what is computed from it (the '
                          'individuals, the records) belongs to the model\'s own data', line=a.lineno,
                          witness='evaluate_individual_prediction(model, dataset=other) where `other` has individuals the '
                                  'model data does not have: their IPRED is NaN')
    if n < 4:
        raise AnalysisError(f'F15: only {n} functions with a dataset argument found in modeling/evaluation.py')
