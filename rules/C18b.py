"""C18 (continued): G11 partitions() keeps the input order inside each part (the block-structure comparison in
iivsearch is by tuple), G12 stepwise search: a candidate's feature differs from its parent by the allowed step."""
from __future__ import annotations

import ast

from sa.report import AnalysisError
from sa.srcmodel import unparse, walk_no_nested, dotted, calls_in

REORDER = {'sorted', 'reversed', 'set', 'frozenset'}
KEEP = {'tuple', 'list', 'iter'}


def run_g11(chk, G11, repo):
    pm = repo.module('pharmpy.internals.set.partitions')
    am = repo.module('pharmpy.tools.iivsearch.algorithms')
    cons = am.functions.get('_is_rv_block_structure')
    if cons is None or 'partitions' not in pm.functions:
        raise AnalysisError('G11: partitions() / _is_rv_block_structure not found')
    # consumer: compares tuples (order sensitive) unless it normalises with sorted/frozenset
    norm = [c for c in ast.walk(cons.node) if isinstance(c, ast.Call) and (dotted(c.func) or '') in ('sorted', 'frozenset')]
    tuples = [c for c in ast.walk(cons.node) if isinstance(c, ast.Call) and dotted(c.func) == 'tuple']
    chk.instance(G11, f'_is_rv_block_structure compares tuple(...) of names against set(partition): tuples={len(tuples)}, '
                      f'normalised={len(norm)}')
    if norm or not tuples:
        chk.instance(G11, 'consumer is order-insensitive (or not recognised as tuple comparison): rule not armed')
        return
    viol = []

    def depth_of(e, env, fn):
        """depth of the value: 0 element, 1 part, 2 partition, 3 collection of partitions; None unknown"""
        if isinstance(e, ast.Name):
            if e.id in env:
                return env.get(e.id)
            # a local bound to a pipeline stage (canonical = (tuple(f(p)) for p in _partitions(..)))
            g_ = pm.functions.get(fn)
            if g_ is not None:
                # an iterative construction: the collection of partitions is seeded with the empty partition `[()]` and
                # extended element by element
                for a_ in walk_no_nested(g_.node):
                    tg_ = a_.targets[0] if isinstance(a_, ast.Assign) and len(a_.targets) == 1 else getattr(a_, 'target', None) \
                        if isinstance(a_, ast.AnnAssign) else None
                    v_ = getattr(a_, 'value', None)
                    if isinstance(tg_, ast.Name) and tg_.id == e.id and isinstance(v_, ast.List) and len(v_.elts) == 1 \
                            and isinstance(v_.elts[0], ast.Tuple) and not v_.elts[0].elts:
                        return 3
                for a_ in walk_no_nested(g_.node):
                    if isinstance(a_, ast.Assign) and len(a_.targets) == 1 and isinstance(a_.targets[0], ast.Name) \
                            and a_.targets[0].id == e.id and isinstance(a_.value, (ast.GeneratorExp, ast.ListComp, ast.Call)):
                        return depth_of(a_.value, env, fn)
            return None
        if isinstance(e, (ast.GeneratorExp, ast.ListComp)) and len(e.generators) == 1 \
                and isinstance(e.generators[0].target, ast.Name):
            # (f(x) for x in xs): the same as map(f, xs)
            d = depth_of(e.generators[0].iter, env, fn)
            if d is not None:
                depth_of(e.elt, dict(env, **{e.generators[0].target.id: d - 1}), fn)
            return d
        if isinstance(e, ast.Call):
            f = dotted(e.func) or ''
            if f == 'map' and len(e.args) == 2:
                d = depth_of(e.args[1], env, fn)
                apply_fn(e.args[0], None if d is None else d - 1, fn, e)
                return d
            if f in REORDER and e.args:
                d = depth_of(e.args[0], env, fn)
                if d == 1:
                    viol.append((fn, e, f'{f}() applied to a part'))
                return d
            if f in KEEP and e.args:
                return depth_of(e.args[0], env, fn)
            if f == '_partitions':
                return 3
            if f in pm.functions and e.args:
                d = depth_of(e.args[0], env, fn)
                apply_fn(e.func, d, fn, e)
                return d
        return None

    seen = set()

    def apply_fn(fexpr, d, fn, site):
        name = dotted(fexpr) or ''
        if name in REORDER:
            if d == 1:
                viol.append((fn, site, f'{name} applied to every part'))
            return
        if name in pm.functions and d is not None and (name, d) not in seen:
            seen.add((name, d))
            g = pm.functions[name]
            env = {g.params[0]: d} if g.params else {}
            for n in walk_no_nested(g.node):
                if isinstance(n, ast.Return) and n.value is not None:
                    depth_of(n.value, env, name)
    pf = pm.functions['partitions']
    recognised = False
    for n in walk_no_nested(pf.node):
        if isinstance(n, ast.Return) and n.value is not None:
            recognised = depth_of(n.value, {}, 'partitions') == 3 or recognised
    # the element sequence handed to _partitions is the input in its own order
    for n in walk_no_nested(pf.node):
        if isinstance(n, ast.Assign) and isinstance(n.targets[0], ast.Name):
            feeds = any(isinstance(c, ast.Call) and dotted(c.func) == '_partitions' and c.args
                        and unparse(c.args[0]) == n.targets[0].id for c in ast.walk(pf.node))
            if feeds:
                bad = [c for c in ast.walk(n.value) if isinstance(c, ast.Call) and (dotted(c.func) or '') in REORDER]
                chk.instance(G11, f'partitions(): `{unparse(n)}` keeps the input order: {not bad}')
                for c in bad:
                    viol.append(('partitions', c, f'{dotted(c.func)}() applied to the input elements'))
    chk.instance(G11, f'partitions(): helper functions analysed with argument depth: {sorted(seen)}')
    if not seen and not recognised:
        raise AnalysisError('G11: the pipeline of partitions() was not recognised')
    for fn, site, why in viol:
        chk.violation(G11, pm.rel, fn, unparse(site)[:100],
                      f'{why}: the elements inside a part are re-ordered, but iivsearch recognises the current block '
                      f'structure by comparing name tuples in model order', line=site.lineno,
                      witness='a base model with an IIV block whose eta names are not in lexicographic order (ETA_V, ETA_CL): '
                              'the current structure is not recognised and is emitted as a duplicate candidate')
    # parts grow by appending the next element
    gp = pm.functions.get('_partitions') or pm.functions.get('partitions')      # merged into its caller: look there
    if gp is None:
        raise AnalysisError('G11: _partitions not found')
    suffix = None
    for n in walk_no_nested(gp.node):
        if isinstance(n, ast.Assign) and isinstance(n.value, ast.Tuple) and len(n.value.elts) == 1:
            suffix = n.targets[0].id
    adds = [n for n in ast.walk(gp.node) if isinstance(n, ast.BinOp) and isinstance(n.op, ast.Add)
            and suffix in {x.id for x in (n.left, n.right) if isinstance(x, ast.Name)}]
    if suffix is None or not adds:
        raise AnalysisError('G11: part extension not recognised in _partitions')
    for a in adds:
        ok = isinstance(a.right, ast.Name) and a.right.id == suffix
        chk.instance(G11, f'_partitions: {unparse(a)} appends the next element: {ok}')
        if not ok:
            chk.violation(G11, pm.rel, '_partitions', unparse(a), 'the next element is put in front of the part: parts come '
                          'out in reverse input order', line=a.lineno,
                          witness='any base model with a block of two etas: the current block structure is not recognised')



def peripheral_block(am):
    """the statements that decide whether a PERIPHERALS step is allowed: the body of _is_allowed_peripheral, or - when that
    helper was folded into its caller - the branch of _is_allowed taken for a PERIPHERALS feature. -> (Func, statements)"""
    f = am.functions.get('_is_allowed_peripheral')
    if f is not None:
        body = [s_ for s_ in f.node.body if not (isinstance(s_, ast.Expr) and isinstance(s_.value, ast.Constant))]
        return f, body
    g = am.functions.get('_is_allowed')
    if g is None:
        return None, None
    for I in walk_no_nested(g.node):
        if isinstance(I, ast.If) and any(isinstance(c, ast.Constant) and c.value == 'PERIPHERALS' for c in ast.walk(I.test)) \
                and any(isinstance(r, ast.Return) for s_ in I.body for r in ast.walk(s_)) \
                and any(isinstance(c, ast.Subscript) and isinstance(c.slice, ast.Constant) and c.slice.value == 'n'
                        for s_ in I.body for c in ast.walk(s_)):
            return g, list(I.body)
    return None, None


def run_g12(chk, G12, repo):
    from sa import lints
    am = repo.module('pharmpy.tools.modelsearch.algorithms')
    g = am.functions.get('_is_allowed')
    f, block = peripheral_block(am)
    if f is None or g is None:
        raise AnalysisError('G12: _is_allowed / _is_allowed_peripheral not found')
    prev = next((p for p in f.params if 'prev' in p), None)
    if prev is None:
        raise AnalysisError('G12: parameter with the previous peripheral steps not found')
    deps = lints.dependence(block)
    rets = [n for s_ in block for n in [s_, *walk_no_nested(s_)] if isinstance(n, ast.Return) and n.value is not None]
    if len(rets) < 2:
        raise AnalysisError('G12: returns of the PERIPHERALS decision not recognised')
    # the return reached when there are previous peripheral steps is the last one
    last = max(rets, key=lambda r: r.lineno)
    cl = lints.closure(deps, {x.id for x in ast.walk(last.value) if isinstance(x, ast.Name)})
    ok = prev in cl
    chk.instance(G12, f'{f.name} (PERIPHERALS decision): `{unparse(last)[:80]}` depends on the previous steps ({prev}): {ok}')
    if not ok:
        chk.violation(G12, am.rel, f.qualname, unparse(last),
                      'when peripheral steps were already taken the decision does not look at them: any count whose '
                      'predecessor in the space is smaller is allowed',
                      line=last.lineno,
                      witness='PERIPHERALS([1,2,3]) with exhaustive_stepwise: paths 1->3 and 1->3->2 are generated')
    # one feature per category on a path: _is_allowed rejects a feature whose category was already used
    tests = [n for n in walk_no_nested(g.node) if isinstance(n, ast.If)]
    same = [t for t in tests if 'func_type' in {x.id for x in ast.walk(t.test) if isinstance(x, ast.Name)}
            and any(isinstance(r, ast.Return) and isinstance(r.value, ast.Constant) and r.value.value is False for r in t.body)]
    dup = [t for t in tests if isinstance(t.test, ast.Compare) and isinstance(t.test.ops[0], ast.In)
           and any(isinstance(r, ast.Return) and isinstance(r.value, ast.Constant) and r.value.value is False for r in t.body)]
    chk.instance(G12, f'_is_allowed: same-category rejection present: {bool(same)}; repeated-feature rejection: {bool(dup)}')
    if not same or not dup:
        chk.violation(G12, am.rel, g.qualname, 'category / repetition guards',
                      'a path may contain two features of one category or the same feature twice', line=g.node.lineno,
                      witness='ABSORPTION([FO,ZO]): a candidate ZO derived from the FO candidate')


def run_g13(chk, G13, repo):
    """set differences per key iterate over the keys of the minuend"""
    pm = repo.module('pharmpy.tools.mfl.parse')
    n = 0
    # the functions of parse.py and the package's own helpers it imports (the set algebra may live in mfl/helpers.py)
    for f in repo.scope(pm)[1]:
        for dc in [x for x in ast.walk(f.node) if isinstance(x, ast.DictComp)]:
            gen = dc.generators[0]
            if not (isinstance(gen.target, ast.Name) and isinstance(gen.iter, ast.Call)
                    and isinstance(gen.iter.func, ast.Attribute) and gen.iter.func.attr == 'keys'):
                continue
            k = gen.target.id
            it = unparse(gen.iter.func.value)
            subs_ = [b for b in ast.walk(dc.value) if isinstance(b, ast.BinOp) and isinstance(b.op, ast.Sub)]
            for b in subs_:
                def base(e):
                    for s_ in ast.walk(e):
                        if isinstance(s_, ast.Subscript) and unparse(s_.slice) == k:
                            return unparse(s_.value)
                    return None
                minuend, subtrahend = base(b.left), base(b.right)
                if minuend is None or subtrahend is None:
                    continue
                n += 1
                ok = it == minuend
                chk.instance(G13, f'{f.name}: {{{k}: {unparse(b)[:50]} for {k} in {it}.keys()}}: keys of the minuend: {ok}')
                if not ok:
                    chk.violation(G13, pm.rel, f.name, unparse(dc)[:110],
                                  f'"what `{minuend}` has and `{subtrahend}` has not" is computed only for the keys of `{it}`: keys '
                                  f'that only `{minuend}` has are dropped', line=dc.lineno,
                                  witness='TRANSITS(1) + TRANSITS(3,NODEPOT): the NODEPOT counts disappear; A + B != B + A')
    if n < 2:
        raise AnalysisError(f'G13: only {n} per-key set differences found in mfl/parse.py')


def run_g15(chk, G15, repo):
    """keys used to look functions up have the same component kinds as the keys the feature modules generate"""
    pm = repo.module('pharmpy.tools.mfl.parse')
    mf = pm.classes.get('ModelFeatures')
    if mf is None:
        raise AnalysisError('ModelFeatures not found')
    # generated keys per tag: which components are `<x>.name` (strings) and which are raw values
    gen = {}
    for mod in repo.modules.values():
        if not mod.name.startswith('pharmpy.tools.mfl.feature.'):
            continue
        f = mod.functions.get('features')
        if f is None:
            continue
        named_vars = set()
        str_consts = {n.targets[0].id for n in ast.walk(f.node) if isinstance(n, ast.Assign)
                      and isinstance(n.targets[0], ast.Name) and isinstance(n.value, ast.Constant)
                      and isinstance(n.value.value, str)}
        for n in ast.walk(f.node):
            # params = [(mode.name, production.name) for ...]: components of `param` are names
            if isinstance(n, ast.Assign) and isinstance(n.value, ast.ListComp) and isinstance(n.value.elt, ast.Tuple) \
                    and all(isinstance(e, ast.Attribute) and e.attr == 'name' for e in n.value.elt.elts):
                named_vars.add(n.targets[0].id)
        for y in [n for n in ast.walk(f.node) if isinstance(n, ast.Yield) and isinstance(n.value, ast.Tuple)]:
            k = y.value.elts[0]
            if not (isinstance(k, ast.Tuple) and k.elts and isinstance(k.elts[0], ast.Constant)):
                continue
            tag = k.elts[0].value
            kinds = []
            for e in k.elts[1:]:
                if isinstance(e, ast.Attribute) and e.attr == 'name':
                    kinds.append('name')
                elif isinstance(e, ast.Starred):
                    kinds += ['name', 'name'] if True else []
                elif isinstance(e, ast.Constant):
                    kinds.append('name')
                elif isinstance(e, ast.Name) and e.id in str_consts:
                    kinds.append('name')
                else:
                    kinds.append('raw')
            gen.setdefault(tag, set()).add(tuple(kinds))
    n = 0
    for mname, m in mf.methods.items():
        if not mname.startswith('_lnt_'):
            continue
        # the key may be written in the subscript or held in a local (`key = ('TRANSITS', n, depot.name); funcs[key]`)
        local_keys = {a_.targets[0].id: a_.value for a_ in ast.walk(m.node) if isinstance(a_, ast.Assign)
                      and isinstance(a_.targets[0], ast.Name) and isinstance(a_.value, ast.Tuple)}
        subs_ = []
        for x in ast.walk(m.node):
            if isinstance(x, ast.Subscript) and isinstance(x.value, ast.Name) and 'func' in x.value.id \
                    and isinstance(x.ctx, ast.Load):
                sl = local_keys.get(x.slice.id) if isinstance(x.slice, ast.Name) else x.slice
                if isinstance(sl, ast.Tuple) and sl.elts and isinstance(sl.elts[0], ast.Constant) \
                        and isinstance(sl.elts[0].value, str):
                    subs_.append(ast.copy_location(ast.Subscript(value=x.value, slice=sl, ctx=ast.Load()), x))
        for sub in subs_:
            tag = sub.slice.elts[0].value
            if any(isinstance(e, ast.Starred) for e in sub.slice.elts):
                chk.instance(G15, f'{mname}: lookup {unparse(sub.slice)[:60]} has a starred part of variable length: not decided')
                continue
            if tag not in gen:
                continue
            kinds = tuple('name' if (isinstance(e, ast.Attribute) and e.attr == 'name') or isinstance(e, ast.Constant) else 'raw'
                          for e in sub.slice.elts[1:])
            # raw components are fine when the generated component is raw too (counts)
            n += 1
            ok = kinds in gen[tag]
            chk.instance(G15, f'{mname}: lookup {unparse(sub.slice)[:60]} kinds {kinds}; generated {sorted(gen[tag])}: {ok}')
            if not ok:
                chk.violation(G15, pm.rel, m.qualname, unparse(sub)[:100],
                              f'the feature module generates {tag} keys with components {sorted(gen[tag])}; this lookup passes '
                              f'{kinds} (an object where its name is expected)', line=sub.lineno,
                              witness='least_number_of_transformations between INDIRECTEFFECT(LINEAR,PRODUCTION) and '
                                      'INDIRECTEFFECT(EMAX,DEGRADATION) raises KeyError')
    if n < 2:
        raise AnalysisError(f'G15: only {n} function look-ups found in the _lnt_ methods')


def run_g16_g18(chk, repo):
    """G16: a transformation is needed exactly when the mode sets are disjoint (truth table of the test in _lnt_helper);
    G17: the next peripheral count in a stepwise search is the successor of the largest one already added (truth table of
    _is_allowed_peripheral); G18: lhs_* variables are built from self, rhs_* from other (clone consistency)"""
    from sa import iterspace as IS
    pm = repo.module('pharmpy.tools.mfl.parse')
    mf = pm.classes.get('ModelFeatures')
    G16 = chk.rule('G16', 'least_number_of_transformations: the generic helper asks for a transformation iff no mode of the '
                          'left space is in the right space (finite truth table)', floor=4)
    lnt = mf.methods.get('least_number_of_transformations') if mf else None
    if lnt is None:
        raise AnalysisError('ModelFeatures.least_number_of_transformations not found')
    # the helper may be a closure of the method or a module-level function it calls
    scope16 = [lnt.node] + [h.node for h in pm.functions.values() if h.cls is None and h.parent is None and any(
        isinstance(c, ast.Call) and isinstance(c.func, ast.Name) and c.func.id == h.name for c in ast.walk(lnt.node))]
    tests = [I for sc_ in scope16 for I in ast.walk(sc_) if isinstance(I, ast.If) and 'modes' in unparse(I.test)
             and any(isinstance(c, ast.Call) and getattr(c.func, 'id', '') in ('any', 'all') or (
                 isinstance(c, ast.Call) and isinstance(c.func, ast.Attribute) and c.func.attr in ('isdisjoint', 'intersection'))
                 for c in ast.walk(I.test))]
    if not tests:
        raise AnalysisError('G16: the mode comparison of _lnt_helper was not found')
    for I in tests:
        srcs = sorted({unparse(x) for x in ast.walk(I.test) if isinstance(x, ast.Attribute) and x.attr == 'modes'})
        if len(srcs) != 2:
            raise AnalysisError(f'G16: expected two mode collections in `{unparse(I.test)[:60]}`, found {srcs}')
        lhs = next(s_ for s_ in srcs if 'lhs' in s_ or 'self' in s_) if any('lhs' in s_ or 'self' in s_ for s_ in srcs) else srcs[0]
        rhs = next(s_ for s_ in srcs if s_ != lhs)
        for L, R in ((['A', 'B'], ['B', 'C']), (['A'], ['B']), (['A', 'B'], ['A', 'B']), (['A'], ['A', 'B']), (['A', 'B'], ['C'])):
            try:
                got = bool(IS.ev_x(I.test, {lhs: L, rhs: R}))
            except IS.Unknown as e:
                raise AnalysisError(f'G16: test not evaluable: {e}')
            want = not (set(L) & set(R))
            chk.instance(G16, f'modes {L} vs {R}: transformation requested {got} (disjoint: {want})')
            if got != want:
                chk.violation(G16, pm.rel, lnt.qualname, f'if {unparse(I.test)[:80]}: {L} vs {R} -> {got}',
                              'a transformation is requested although the two spaces share a mode (or not requested although '
                              'they share none)', line=I.lineno,
                              witness='ABSORPTION([FO,ZO]) against ABSORPTION([ZO,SEQ-ZO-FO]): a transformation to ZO is '
                                      'requested although ZO is in both')
    G17 = chk.rule('G17', '_is_allowed_peripheral: only the direct successor of the largest peripheral count already added is '
                          'allowed (finite truth table)', floor=5)
    am = repo.module('pharmpy.tools.modelsearch.algorithms')
    f, block = peripheral_block(am)
    if f is None:
        raise AnalysisError('_is_allowed_peripheral (or the PERIPHERALS branch of _is_allowed) not found')
    # the three quantities by what they are computed from, whatever they are called: the count asked for (x.keywords['n']), the
    # counts already added (a comprehension of .keywords['n']) and all counts of the space (a comprehension filtered on
    # 'PERIPHERALS')
    def is_n_sub(e):
        return isinstance(e, ast.Subscript) and isinstance(e.slice, ast.Constant) and e.slice.value == 'n'
    v_n = v_prev = v_all = None
    for a_ in [x for s_ in block for x in [s_, *ast.walk(s_)]]:
        tgt = a_.targets[0] if isinstance(a_, ast.Assign) and len(a_.targets) == 1 else a_.target if isinstance(a_, ast.AnnAssign) else None
        val = getattr(a_, 'value', None)
        if not isinstance(tgt, ast.Name) or val is None:
            continue
        comp = next((c for c in ast.walk(val) if isinstance(c, (ast.ListComp, ast.GeneratorExp))), None)
        if is_n_sub(val):
            v_n = tgt.id
        elif comp is not None and is_n_sub(comp.elt):
            v_prev = tgt.id
        elif comp is not None and any(isinstance(c, ast.Constant) and c.value == 'PERIPHERALS' for c in ast.walk(comp)) \
                and v_all is None and not any(is_n_sub(x) for x in ast.walk(comp)):
            v_all = tgt.id
    # all counts of the space: what the decision takes min() / .index() of
    used_all = [c.args[0].id for s_ in block for c in ast.walk(s_) if isinstance(c, ast.Call) and dotted(c.func) == 'min'
                and c.args and isinstance(c.args[0], ast.Name)] + \
               [c.func.value.id for s_ in block for c in ast.walk(s_) if isinstance(c, ast.Call)
                and isinstance(c.func, ast.Attribute) and c.func.attr == 'index' and isinstance(c.func.value, ast.Name)]
    if used_all:
        v_all = used_all[0]
    if not (v_n and v_prev and v_all):
        raise AnalysisError(f'G17: the quantities of the PERIPHERALS decision were not recognised ({v_n}, {v_prev}, {v_all})')
    names_ = {v_n, v_all, v_prev}
    start = next((i for i, s_ in enumerate(block) if isinstance(s_, (ast.If, ast.Return)) and
                  {x.id for x in ast.walk(s_) if isinstance(x, ast.Name)} & names_ and not any(
                      isinstance(a, ast.Assign) and any(isinstance(t, ast.Name) and t.id in names_ for t in a.targets)
                      for a in ast.walk(s_))), None)
    if start is None:
        raise AnalysisError('G17: decision part of _is_allowed_peripheral not found')
    tail = block[start:]
    for n_all, n_prev, n, want in (([1, 2, 3], [1], 2, True), ([1, 2, 3], [1], 3, False), ([1, 2, 3], [], 1, True),
                                   ([1, 2, 3], [], 2, False), ([1, 2, 3], [1, 2], 3, True), ([1, 3], [1], 3, True),
                                   ([1, 2, 3], [2], 1, False)):
        try:
            got = bool(IS.run_tail(tail, {v_all: n_all, v_prev: n_prev, v_n: n}))
        except (IS.Unknown, ValueError, IndexError, KeyError) as e:
            raise AnalysisError(f'G17: decision part not evaluable: {type(e).__name__} {e}')
        chk.instance(G17, f'counts {n_all}, added {n_prev}, next {n}: allowed {got} (wanted {want})')
        if got != want:
            chk.violation(G17, am.rel, f.name, f'counts {n_all}, added {n_prev}, next {n}: allowed {got}',
                          'the stepwise search may add more than one peripheral compartment in one step (or refuses the next '
                          'one)', line=f.node.lineno,
                          witness='PERIPHERALS(1..3): the path PERIPHERALS(1) -> PERIPHERALS(3) is generated')
    G18 = chk.rule('G18', 'ModelFeatures comparison helpers: lhs_* locals are computed from self, rhs_* from other', floor=4)
    n18 = 0
    for name, fn in mf.methods.items():
        params = [p for p in fn.params if p != 'self']
        if not params:
            continue
        other = params[0]
        for a in walk_no_nested(fn.node):
            if isinstance(a, ast.Assign) and isinstance(a.targets[0], ast.Name) and a.targets[0].id.startswith(('lhs', 'rhs')):
                side = a.targets[0].id[:3]
                roots = {x.value.id for x in ast.walk(a.value) if isinstance(x, ast.Attribute) and isinstance(x.value, ast.Name)
                         and x.value.id in ('self', other)}
                if not roots:
                    continue
                n18 += 1
                want = 'self' if side == 'lhs' else other
                ok = roots == {want}
                chk.instance(G18, f'{name}: `{a.targets[0].id}` computed from {sorted(roots)}: {ok}')
                if not ok:
                    chk.violation(G18, pm.rel, fn.qualname, unparse(a)[:100],
                                  f'`{a.targets[0].id}` is computed from {sorted(roots)}: the comparison looks at the same '
                                  f'operand twice', line=a.lineno,
                                  witness='two spaces that differ only in their TRANSITS(.., NODEPOT) counts compare equal')
    if n18 < 4:
        raise AnalysisError(f'G18: only {n18} lhs_/rhs_ locals found')


def run_g19_g20(chk, repo):
    """G19: the exclusions of _is_allowed that do not depend on the path (TRANSITS(0, NODEPOT) is the same model as changing the
    absorption) are tested before the "no step taken yet: allowed" shortcut; G20: the name of a LET definition and the name
    of an @reference go through the same case conversion"""
    from sa.cfg import CFG
    G19 = chk.rule('G19', '_is_allowed: `if not feat_previous: return True` is reached only after the unconditional exclusion of '
                          'TRANSITS(0, NODEPOT)', floor=1)
    am = repo.module('pharmpy.tools.modelsearch.algorithms')
    f = am.functions.get('_is_allowed')
    if f is None:
        raise AnalysisError('_is_allowed not found')
    cfg = CFG(f.node)
    excl = [n for n in cfg.nodes.values() if n.kind == 'test' and n.ast is not None and isinstance(n.ast, ast.Compare)
            and any(isinstance(t, ast.Tuple) and [getattr(e, 'value', None) for e in t.elts][:1] == ['TRANSITS']
                    and 0 in [getattr(e, 'value', None) for e in t.elts] for t in ast.walk(n.ast))]
    first = [n for n in cfg.nodes.values() if n.kind == 'test' and n.ast is not None and isinstance(n.ast, ast.UnaryOp)
             and isinstance(n.ast.op, ast.Not) and isinstance(n.ast.operand, ast.Name) and 'prev' in n.ast.operand.id]
    if not excl or not first:
        raise AnalysisError(f'G19: exclusion test ({len(excl)}) / first-step shortcut ({len(first)}) of _is_allowed not found')
    for t in first:
        rets = [s_ for s_ in cfg.succ(t.id, ['true']) if cfg.nodes[s_].kind == 'return'
                and isinstance(cfg.nodes[s_].ast.value, ast.Constant) and cfg.nodes[s_].ast.value.value is True]
        for r in rets:
            ok = any(cfg.dominates(e.id, r) for e in excl)
            chk.instance(G19, f'_is_allowed: `if {unparse(t.ast)}: return True` comes after `{unparse(excl[0].ast)[:50]}`: {ok}')
            if not ok:
                chk.violation(G19, am.rel, f.name, f'if {unparse(t.ast)}: return True before {unparse(excl[0].ast)[:50]}',
                              'as the first step of a path the excluded feature is accepted', line=t.line,
                              witness='TRANSITS([0,1],*) in the search space: the stepwise algorithms generate the candidate '
                                      'TRANSITS(0, NODEPOT) and its subtree')
    G20 = chk.rule('G20', 'mfl: LET names and @references are spelled through the same case conversion', floor=2)
    dm = repo.module('pharmpy.tools.mfl.statement.definition')
    di = dm.classes.get('DefinitionInterpreter')
    it = di.methods.get('interpret') if di else None
    if it is None:
        raise AnalysisError('DefinitionInterpreter.interpret not found')
    CASE = ('upper', 'lower', 'casefold', 'title', 'capitalize')

    def case_ops(e):
        return sorted({c.func.attr for c in ast.walk(e) if isinstance(c, ast.Call) and isinstance(c.func, ast.Attribute)
                       and c.func.attr in CASE})
    let_calls = [c for c in calls_in(it.node) if dotted(c.func) == 'Let' and c.args]
    if not let_calls:
        raise AnalysisError('G20: Let(name, ..) not found in DefinitionInterpreter.interpret')
    let_ops = case_ops(let_calls[0].args[0])
    chk.instance(G20, f'LET name: {unparse(let_calls[0].args[0])[:40]} case conversion {let_ops}')
    n = 0
    for m in repo.modules.values():
        if not m.name.startswith('pharmpy.tools.mfl.statement'):
            continue
        for g in m.functions.values():
            if g.name != 'ref':
                continue
            from sa import reach
            gcfg = CFG(g.node)
            for nd in gcfg.nodes.values():
                if nd.kind == 'return' and isinstance(nd.ast.value, ast.Call) and dotted(nd.ast.value.func) == 'Ref' \
                        and nd.ast.value.args:
                    n += 1
                    # the name as it reaches Ref(..): conversions applied after reading it from the token
                    a0 = nd.ast.value.args[0]
                    ops = case_ops(a0)
                    if isinstance(a0, ast.Name):
                        for _d, v in (reach.values(gcfg, nd.id, a0.id) or []):
                            ops = sorted(set(ops) | set(case_ops(v)))
                    ok = ops == let_ops
                    chk.instance(G20, f'{g.qualname}: Ref({unparse(a0)[:30]}) case conversion {ops} (LET: {let_ops}): {ok}')
                    if not ok:
                        chk.violation(G20, m.rel, g.qualname, unparse(nd.ast.value)[:60],
                                      f'the reference is looked up as {ops or "written"} while the definition is stored as '
                                      f'{let_ops or "written"}: a LET whose name is not all upper case is never found',
                                      line=nd.line,
                                      witness='LET(covs,[WGT,AGE]);COVARIATE?(CL,@covs,exp): the statement expands to no '
                                              'feature and does not round-trip')
    if n == 0:
        raise AnalysisError('G20: no ref() interpreter method found')

    # ---------------------------------------------------------------- G21 the yes/no tests between search spaces answer on every path
    from sa import lints as _lints
    G21 = chk.rule('G21', 'ModelFeatures: a yes/no test between search spaces (all returns are truth values) returns on every '
                          'path; a path that runs off the end answers None = "no" although the comparison made on it '
                          'succeeded', floor=2)
    pm = repo.module('pharmpy.tools.mfl.parse')
    mf = pm.classes.get('ModelFeatures')
    if mf is None:
        raise AnalysisError('G21: ModelFeatures not found')
    if 'contain_subset' not in mf.methods:
        raise AnalysisError('G21: ModelFeatures.contain_subset not found')
    for g in mf.methods.values():
        if not _lints.is_predicate(g.node):
            continue
        off = _lints.predicate_falls_off(g.node)
        chk.instance(G21, f'{g.qualname}: {len(off)} paths end without a return')
        for nd in off:
            chk.violation(G21, pm.rel, g.qualname, f'falls off the end after `{nd.text()[:70]}`',
                          'every comparison made on this path succeeded, yet the caller receives None (falsy)',
                          line=nd.line,
                          witness="ModelFeatures.create('ABSORPTION(FO);ELIMINATION(FO)').contain_subset(same, tool='x') "
                                  "is None although a search space contains itself")


def run_g22(chk, repo):
    """G22: a COVARIATE statement stands for the cross product parameter x covariate of ITS OWN lists; two statements with the
    same effect and operation do not allow the cross pairs between them. ModelFeatures._subset_covariates (the covariate part of
    contain_subset) must therefore compare (parameter, covariate) PAIRS: every statement that collects the parameters of an
    evaluated covariate statement pairs them with that statement's covariates in the same expression (product / tuple)."""
    G22 = chk.rule('G22', 'ModelFeatures._subset_covariates: parameters and covariates of a COVARIATE statement are collected as '
                          'pairs of that statement, not as two independent sets', floor=2)
    pm = repo.module('pharmpy.tools.mfl.parse')
    c = pm.classes.get('ModelFeatures')
    f = c.methods.get('_subset_covariates') if c else None
    if f is None:
        raise AnalysisError('G22: ModelFeatures._subset_covariates not found')
    n = 0
    for s in ast.walk(f.node):
        if not isinstance(s, (ast.Expr, ast.Assign, ast.AugAssign, ast.AnnAssign, ast.Return)):
            continue
        if any(isinstance(x, (ast.stmt,)) and x is not s for x in ast.walk(s)):
            continue
        pars = [a for a in ast.walk(s) if isinstance(a, ast.Attribute) and a.attr == 'parameter' and isinstance(a.ctx, ast.Load)]
        for a in pars:
            n += 1
            owner = unparse(a.value)
            paired = any(isinstance(b, ast.Attribute) and b.attr == 'covariate' and unparse(b.value) == owner for b in ast.walk(s))
            chk.instance(G22, f'_subset_covariates: {unparse(s)[:70]}: paired with {owner}.covariate: {paired}')
            if not paired:
                chk.violation(G22, pm.rel, f.qualname, unparse(s)[:90],
                              f'the parameters of `{owner}` are collected without its covariates: the containment test then '
                              f'accepts cross pairs between different COVARIATE statements', line=s.lineno,
                              witness='COVARIATE?(CL,WGT,EXP);COVARIATE?(V,APGR,EXP) is reported to contain '
                                      'COVARIATE?(CL,APGR,EXP) (contain_subset with a model and tool="covsearch")')
    if n == 0:
        raise AnalysisError('G22: no read of <evaluated covariate>.parameter in _subset_covariates')
