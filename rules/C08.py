"""C08 Structural feature setters: T1 feature alphabet totality (mode -> setter, mode -> detector agree and
are exported), T2 detectors of one category are pairwise disjoint (truth table over shared atoms), T3 setter
dispatch over the detector space (advisory where the uncovered corner is outside the search space)."""
from __future__ import annotations

import ast
import itertools

from sa.report import AnalysisError
from sa import reach
from sa.cfg import CFG
from sa.srcmodel import unparse, walk_no_nested, calls_in, dotted
from sa.tables import const_dispatch

MFL = 'pharmpy.tools.mfl'
ODES = 'pharmpy.modeling.odes'


def names(node):
    return {n.id for n in ast.walk(node) if isinstance(n, ast.Name)}


def bool_eval(e, env):
    if isinstance(e, ast.Name):
        return env[e.id]
    if isinstance(e, ast.UnaryOp) and isinstance(e.op, ast.Not):
        return not bool_eval(e.operand, env)
    if isinstance(e, ast.BoolOp):
        vals = [bool_eval(v, env) for v in e.values]
        return all(vals) if isinstance(e.op, ast.And) else any(vals)
    if isinstance(e, ast.Constant):
        return bool(e.value)
    raise AnalysisError(f'T2: unsupported boolean form {unparse(e)}')


def run(chk, repo, tier):
    chk.explanation = (
        'T1: for absorption and elimination every mode has a setter (MFL dispatch chain) and a detector '
        '(get_model_features chain) that name the same feature, and every dispatch target is an exported '
        'pharmpy.modeling function. T2: the elimination detectors are boolean formulas over three atoms that are defined '
        'by identical statements in each detector; by truth table they are pairwise disjoint (at most one feature is '
        'reported). T3: the if/elif dispatch of the elimination setters over the detectors is examined for uncovered '
        'corners (advisory: the only uncovered corner needs a parameter fix that no search-space transformation makes). NOT '
        'decided: detector == request after arbitrary setter sequences, idempotence, reversibility (graph rewrites on '
        'run-time structures).')
    T1 = chk.rule('T1', 'mode -> setter and mode -> detector name the same feature; targets exported', floor=8)
    T2 = chk.rule('T2', 'detectors sharing atoms are pairwise disjoint (truth table)', floor=6)
    T3 = chk.rule('T3', 'setter dispatch over detectors: uncovered corners', floor=2)

    mm = repo.module('pharmpy.modeling')
    allv = mm.globals_.get('__all__')
    exported = {e.value for e in allv.elts if isinstance(e, ast.Constant)} if isinstance(allv, (ast.List, ast.Tuple)) else set()
    if len(exported) < 100:
        raise AnalysisError('pharmpy.modeling.__all__ not found')
    pm = repo.module(f'{MFL}.parse')
    gmf = pm.functions.get('get_model_features')
    if gmf is None:
        raise AnalysisError('get_model_features not found')
    # mode -> detector from the if/elif chains
    det = {}
    for n in ast.walk(gmf.node):
        if isinstance(n, ast.If) and isinstance(n.test, ast.Call) and isinstance(n.test.func, ast.Name) \
                and n.test.func.id.startswith('has_') and n.body and isinstance(n.body[0], ast.Assign) \
                and isinstance(n.body[0].value, ast.Constant):
            det[(n.body[0].targets[0].id, n.body[0].value.value)] = n.test.func.id

    # table form: `absorption = next((name for name, has in (('ZO', has_zero_order_absorption), ..) if has(model)), None)`
    for a_ in ast.walk(gmf.node):
        if isinstance(a_, ast.Assign) and len(a_.targets) == 1 and isinstance(a_.targets[0], ast.Name):
            for g_ in [x for x in ast.walk(a_.value) if isinstance(x, (ast.GeneratorExp, ast.ListComp))]:
                tab = g_.generators[0].iter
                if isinstance(tab, ast.Name):
                    tab = pm.globals_.get(tab.id, tab)
                if isinstance(tab, (ast.Tuple, ast.List)):
                    for row in tab.elts:
                        if isinstance(row, ast.Tuple) and len(row.elts) == 2 and isinstance(row.elts[0], ast.Constant) \
                                and isinstance(row.elts[1], ast.Name) and row.elts[1].id.startswith('has_'):
                            det.setdefault((a_.targets[0].id, row.elts[0].value), row.elts[1].id)

    def key(fn, cat):
        k = fn
        for pre in ('has_', 'set_'):
            if k.startswith(pre):
                k = k[len(pre):]
        return k.replace(f'_{cat}', '')
    for cat in ('absorption', 'elimination'):
        fm = repo.module(f'{MFL}.feature.{cat}')
        ff = fm.functions.get('features')
        setters = {}
        # mode string -> setter, from the if-chain (`yield (KIND, mode.name), setter`) or from a table lookup
        for mode_, vars_ in const_dispatch(ff.node, fm).items():
            tgt = None
            y = vars_.get('<yield>')
            if isinstance(y, ast.Tuple) and len(y.elts) == 2:
                tgt = y.elts[1]
            elif '<lookup>' in vars_:
                tgt = vars_['<lookup>']
            if tgt is not None and isinstance(mode_, str):
                setters[mode_] = tgt.id if isinstance(tgt, ast.Name) else (
                    unparse(tgt.args[0]) if isinstance(tgt, ast.Call) and tgt.args else None)
        if len(setters) < 4:
            raise AnalysisError(f'T1: only {len(setters)} setters found for {cat}')
        for mode, sfn in sorted(setters.items()):
            dfn = det.get((cat, mode))
            chk.instance(T1, f'{cat} {mode}: setter {sfn}, detector {dfn}')
            if sfn not in exported:
                chk.violation(T1, fm.rel, 'features', f'{mode} -> {sfn}', 'the setter is not an exported modeling function',
                              witness=f'a search space with {cat.upper()}({mode}) cannot be converted to functions')
            if dfn is None:
                chk.violation(T1, pm.rel, 'get_model_features', f'{cat} {mode}: no detector',
                              f'get_model_features can never report {cat.upper()}({mode})', line=gmf.node.lineno,
                              witness=f'after requesting {cat.upper()}({mode}) the reported features do not contain it')
            elif key(dfn, cat) != key(sfn, cat):
                chk.violation(T1, pm.rel, 'get_model_features', f'{cat} {mode}: {dfn} vs {sfn}',
                              'the detector paired with this mode string names another feature than the setter',
                              line=gmf.node.lineno,
                              witness=f'set {cat} {mode}: get_model_features reports another mode')
            if dfn is not None and dfn not in exported:
                chk.violation(T1, pm.rel, 'get_model_features', f'{dfn}', 'detector is not an exported modeling function')
    # ---------------------------------------------------------------- T2
    om = repo.module(ODES)
    dets = {n: om.functions.get(n) for n in ('has_first_order_elimination', 'has_zero_order_elimination',
                                             'has_michaelis_menten_elimination', 'has_mixed_mm_fo_elimination')}
    if any(v is None for v in dets.values()):
        raise AnalysisError('elimination detectors not found')
    # Each detector's result as a boolean formula over atoms. An atom is a non-boolean subexpression of the returned
    # expression after its local temporaries were resolved (`odes.t in odes.get_flow(odes.central_compartment,
    # output).free_symbols`), identified by its text, so it does not matter whether a detector names the atom in a local
    # (`is_nonlinear = ...`), returns it inline, negates it with `not in`, or wraps it in bool().
    atom_ids = {}
    formulas = {}

    def abstract(e):
        if isinstance(e, ast.UnaryOp) and isinstance(e.op, ast.Not):
            return ast.UnaryOp(op=ast.Not(), operand=abstract(e.operand))
        if isinstance(e, ast.BoolOp):
            return ast.BoolOp(op=e.op, values=[abstract(v) for v in e.values])
        if isinstance(e, ast.Constant) and isinstance(e.value, bool):
            return e
        if isinstance(e, ast.Call) and dotted(e.func) == 'bool' and len(e.args) == 1:
            return abstract(e.args[0])
        if isinstance(e, ast.IfExp) and isinstance(e.body, ast.Constant) and isinstance(e.orelse, ast.Constant) \
                and e.body.value is True and e.orelse.value is False:
            return abstract(e.test)
        neg = False
        if isinstance(e, ast.Compare) and len(e.ops) == 1 and isinstance(e.ops[0], (ast.NotIn, ast.NotEq, ast.IsNot)):
            pos = {ast.NotIn: ast.In, ast.NotEq: ast.Eq, ast.IsNot: ast.Is}[type(e.ops[0])]()
            e, neg = ast.Compare(left=e.left, ops=[pos], comparators=e.comparators), True
        key = unparse(e)
        nm = atom_ids.setdefault(key, f'atom{len(atom_ids)}')
        leaf = ast.Name(id=nm, ctx=ast.Load())
        return ast.UnaryOp(op=ast.Not(), operand=leaf) if neg else leaf
    for name, f in dets.items():
        ret = [n for n in f.node.body if isinstance(n, ast.Return) and n.value is not None]
        if not ret:
            raise AnalysisError(f'{name}: final return not found')
        cfg_ = CFG(f.node)
        rid = reach.node_of(cfg_, ret[-1])
        full = reach.expand_expr(cfg_, rid, ret[-1].value) if rid is not None else ret[-1].value
        # `if c: return True` + `return False` tails were not met on this tree; a detector whose value is decided by earlier
        # returns is outside this abstraction
        for s_ in f.node.body[:-1]:
            if not any(isinstance(n, ast.Return) for n in ast.walk(s_)):
                continue
            # the common guard `if odes is None: return False` (no ODE system: no detector is true) is not part of the formula
            guard = isinstance(s_, ast.If) and not s_.orelse and len(s_.body) == 1 and isinstance(s_.body[0], ast.Return) \
                and isinstance(s_.body[0].value, ast.Constant) and s_.body[0].value.value is False \
                and isinstance(s_.test, ast.Compare) and isinstance(s_.test.ops[0], ast.Is) \
                and isinstance(s_.test.comparators[0], ast.Constant) and s_.test.comparators[0].value is None
            if not guard:
                raise AnalysisError(f'{name}: more than one return (the detector is not a single boolean expression)')
        formulas[name] = abstract(full)
    atoms = sorted(atom_ids.values())
    for key, nm in atom_ids.items():
        users = [n for n, fm in formulas.items() if nm in names(fm)]
        chk.instance(T2, f'{nm} = `{key[:90]}` used by {users}')
    for (n1, f1), (n2, f2) in itertools.combinations(formulas.items(), 2):
        overlap = [dict(zip(atoms, vals)) for vals in itertools.product([False, True], repeat=len(atoms))
                   if bool_eval(f1, dict(zip(atoms, vals))) and bool_eval(f2, dict(zip(atoms, vals)))]
        chk.instance(T2, f'{n1} and {n2} disjoint: {not overlap}')
        if overlap:
            chk.violation(T2, om.rel, f'{n1} / {n2}', f'both true for {overlap[0]}',
                          'two detectors of the same category can be true for one model', line=dets[n1].node.lineno,
                          witness='a model in that corner is reported with two elimination features (or the first of the '
                                  'elif chain, which is not the one that was set)')
    uncovered = [dict(zip(atoms, vals)) for vals in itertools.product([False, True], repeat=len(atoms))
                 if not any(bool_eval(f_, dict(zip(atoms, vals))) for f_ in formulas.values())]
    chk.extra['elimination_detector_uncovered_corners'] = uncovered
    # ---------------------------------------------------------------- T3
    for sname in ('set_first_order_elimination', 'set_zero_order_elimination', 'set_michaelis_menten_elimination',
                  'set_mixed_mm_fo_elimination'):
        f = om.functions.get(sname)
        if f is None:
            raise AnalysisError(f'{sname} not found')
        top = next((s for s in f.node.body if isinstance(s, ast.If) and any(
            isinstance(c, ast.Call) and dotted(c.func) in dets for c in ast.walk(s.test))), None)
        if top is None:
            chk.instance(T3, f'{sname}: no detector dispatch at top level (delegates)')
            continue
        tests = []
        node = top
        has_else = False
        while node is not None:
            tests.append(node.test)
            if len(node.orelse) == 1 and isinstance(node.orelse[0], ast.If):
                node = node.orelse[0]
            else:
                has_else = bool(node.orelse)
                node = None

        def test_eval(t, env):
            if isinstance(t, ast.Call) and dotted(t.func) in formulas:
                return bool_eval(formulas[dotted(t.func)], env)
            if isinstance(t, ast.BoolOp):
                vals = [test_eval(v, env) for v in t.values]
                return all(vals) if isinstance(t.op, ast.And) else any(vals)
            if isinstance(t, ast.UnaryOp) and isinstance(t.op, ast.Not):
                return not test_eval(t.operand, env)
            raise AnalysisError(f'T3: unsupported dispatch test {unparse(t)}')
        missing = []
        if not has_else:
            for vals in itertools.product([False, True], repeat=len(atoms)):
                env = dict(zip(atoms, vals))
                if not any(test_eval(t, env) for t in tests):
                    missing.append(env)
        chk.instance(T3, f'{sname}: dispatch has else: {has_else}; uncovered corners: {missing}')
        for env in missing:
            chk.violation(T3, om.rel, sname, f'no branch for {env}',
                          'the setter returns its input unchanged in this corner (neither the feature nor a refusal)',
                          line=f.node.lineno, advisory=True,
                          witness='needs POP_KM fixed while CL is in the rate: only reachable with fix_parameters, which is '
                                  'not a search-space transformation')
    # ---------------------------------------------------------------- T4 / T5 / T6
    run_more(chk, repo)
    run_t8_t9(chk, repo)


def run_more(chk, repo):
    from sa import lints
    from rules.C05 import run_o7
    st = lints.self_test()
    if not all(st.values()):
        raise AnalysisError(f'lint self-test failed: {st}')
    T4 = chk.rule('T4', 'a compartment replaced by a builder call is not used afterwards without rebinding (stale node: '
                        'the following setter is a silent no-op) in the modeling functions', floor=30)
    T5 = chk.rule('T5', 'search loops of the compartment finders: every break that ends the search follows an assignment '
                        'of the result in that iteration', floor=3)
    T6 = chk.rule('T6', 'feature -> function tables: no function defined in a loop that reads a loop variable and '
                        'escapes the iteration (late binding)', floor=8)
    run_o7(chk, T4, repo, only_modules={m for m in repo.modules if m.startswith('pharmpy.modeling')})
    # T5
    scope = [f for f in repo.all_funcs()
             if (f.module.name == 'pharmpy.model.statements' and 'CompartmentalSystem.' in f.qualname)
             or f.module.name in ('pharmpy.modeling.odes', 'pharmpy.modeling.metabolite', 'pharmpy.modeling.tmdd')]
    for f in scope:
        for L, res, brs in lints.search_loops(f.node):
            chk.instance(T5, f'{f.qualname}: search loop line {L.lineno} result {sorted(res)}, breaks '
                             f'{[(b.lineno, ok) for b, ok in brs]}')
            for b, ok in brs:
                if not ok:
                    chk.violation(T5, f.module.rel, f.qualname,
                                  f'for {unparse(L.target)} in {unparse(L.iter)}: break without {"/".join(sorted(res))} = ...',
                                  'the search stops at a candidate that is rejected, so whether a later candidate is found '
                                  'depends on the order of the graph edges', line=b.lineno,
                                  witness='two models with the same compartments and flows built in a different order (e.g. '
                                          'peripheral added before the depot, or set_tmdd before '
                                          'set_first_order_absorption): the detector answers differently')
    T7 = chk.rule('T7', 'setters do not build a new system from an ODE system that was read before the model was re-bound '
                        'to a changed system', floor=20)
    nset = 0
    for f in repo.all_funcs():
        if not f.module.name.startswith('pharmpy.modeling') or 'model' not in f.all_params:
            continue
        if 'CompartmentalSystemBuilder' not in unparse(f.node):
            continue
        nset += 1
        for var, d, r, u in lints.stale_system_after_model_rebind(f.node):
            chk.violation(T7, f.module.rel, f.qualname, f'{d.text()[:50]} ... {r.text()[:50]} ... {u.text()[:60]}',
                          f'`{var}` is the system of the model before line {r.line}; a builder created from it at line {u.line} '
                          f'does not contain what was changed in between', line=u.line,
                          witness='pheno with SEQ-ZO-FO absorption, then set_instantaneous_absorption: the depot removed by the '
                                  'first branch is back in the second, update fails with "Symbol POP_MAT is not defined"')
    chk.instance(T7, f'{nset} modeling functions that build compartmental systems examined', n=nset)
    # T6: generators of the MFL feature modules and everything they are collected by
    n = 0
    for f in repo.all_funcs():
        if not f.module.name.startswith('pharmpy.tools.mfl'):
            continue
        n += 1
        hits = lints.late_binding(f.node)
        if f.module.name.startswith('pharmpy.tools.mfl.feature') and f.name == 'features':
            chk.instance(T6, f'{f.module.name}.features: closures capturing loop variables: {len(hits)}')
        for node, L, cap, how in hits:
            nm = getattr(node, 'name', 'lambda')
            chk.violation(T6, f.module.rel, f.qualname, f'{nm} reads {", ".join(cap)} ({how})',
                          'the function is created in a loop and reads the loop variable when it is called; all entries '
                          'collected from the loop (dict(features)) then use the values of the last iteration',
                          line=node.lineno,
                          witness='a search space with more than one combination, e.g. TRANSITS([0,2,4]): every TRANSITS '
                                  'entry creates the model of the last combination')


def run_t8_t9(chk, repo):
    from sa.cfg import CFG
    T8 = chk.rule('T8', 'an attribute is copied from a compartment before that compartment is reset to a constant (not after)',
                  floor=1)
    T9 = chk.rule('T9', 'remove_symbol_definitions: every set that protects definitions is closed under dependencies', floor=2)
    SETTERS = {'set_bioavailability': 'bioavailability', 'set_lag_time': 'lag_time', 'set_input': 'input'}
    n8 = 0
    for f in repo.all_funcs():
        if not f.module.name.startswith('pharmpy.modeling'):
            continue
        resets = []
        for n in walk_no_nested(f.node):
            if isinstance(n, ast.Assign) and len(n.targets) == 1 and isinstance(n.targets[0], ast.Name) \
                    and isinstance(n.value, ast.Call) and isinstance(n.value.func, ast.Attribute) \
                    and n.value.func.attr in SETTERS and len(n.value.args) == 2 \
                    and isinstance(n.value.args[0], ast.Name) and n.value.args[0].id == n.targets[0].id:
                v = n.value.args[1]
                const = isinstance(v, ast.Constant) or (isinstance(v, ast.Call) and (dotted(v.func) or '').startswith('Expr.')
                                                        and all(isinstance(a, ast.Constant) for a in v.args))
                if const:
                    resets.append((n, n.targets[0].id, SETTERS[n.value.func.attr]))
        if not resets:
            continue
        cfg = CFG(f.node)
        for n, var, attr in resets:
            n8 += 1
            rid = next((i for i in cfg.ids(n)), None)
            if rid is None:
                continue
            kills = {k.id for k in cfg.nodes.values() if k.kind == 'stmt' and isinstance(k.ast, ast.Assign) and k.id != rid
                     and any(isinstance(t, ast.Name) and t.id == var for t in k.ast.targets)}
            reach = set()
            for s_ in cfg.g.successors(rid):
                if s_ not in kills:
                    reach |= cfg.reachable(s_, avoid=kills)
            bad = None
            for r in sorted(reach):
                a = cfg.nodes[r].ast
                if a is None or cfg.nodes[r].kind != 'stmt':
                    continue
                for c in ast.walk(a):
                    if isinstance(c, ast.Call) and isinstance(c.func, ast.Attribute) and c.func.attr in SETTERS \
                            and SETTERS[c.func.attr] == attr and len(c.args) == 2 \
                            and isinstance(c.args[1], ast.Attribute) and isinstance(c.args[1].value, ast.Name) \
                            and c.args[1].value.id == var and c.args[1].attr == attr:
                        bad = (cfg.nodes[r], c)
            chk.instance(T8, f'{f.qualname}: `{unparse(n)[:60]}`; later copy of {var}.{attr}: {bool(bad)}')
            if bad:
                chk.violation(T8, f.module.rel, f.qualname, f'{unparse(n)[:60]} ... {unparse(bad[1])[:70]}',
                              f'`{var}.{attr}` is read after `{var}` was reset to a constant: the constant is copied, the '
                              f'model\'s {attr} is lost', line=bad[0].line,
                              witness='add_bioavailability, then set_transit_compartments(n > 0) on a model without transits: F '
                                      'disappears from the dosing compartment, POP_BIO is left dangling')
    if n8 == 0:
        raise AnalysisError('T8: no reset of a compartment attribute to a constant found in pharmpy.modeling')
    from rules.C10 import closed_protection_sets
    closed_protection_sets(chk, T9, repo)
    run_t10(chk, repo)
    run_t11(chk, repo)
    run_t12(chk, repo)
    run_t13_t14(chk, repo)
    run_t15_t16(chk, repo)
    run_t17(chk, repo)


def run_t10(chk, repo):
    """a feature setter reached with a model without ODE system refuses with the documented error (get_and_check_odes),
    it does not trip over `assert isinstance(odes, CompartmentalSystem)`"""
    from sa import guards as G_
    T10 = chk.rule('T10', 'in the feature setters (and the helpers they call) an `assert` on the ODE system read from '
                          'model.statements.ode_system is preceded by get_and_check_odes, a detector that was true, or a None test',
                   floor=3)
    om = repo.module(ODES)
    funcs = {k: f for k, f in dict.items(om.functions) if f.cls is None and f.parent is None}
    callers = {}
    for name, f in funcs.items():
        for c in calls_in(f.node):
            callee = dotted(c.func)
            if callee in funcs and callee != name:
                callers.setdefault(callee, []).append((f, c))
    cfgs = {}

    def cfg_of(f):
        if f.name not in cfgs:
            cfgs[f.name] = CFG(f.node)
        return cfgs[f.name]

    def detector_true(e):
        if isinstance(e, ast.Call) and (dotted(e.func) or '').startswith('has_'):
            return True
        return None

    def protected(f, nid, var=None):
        cfg = cfg_of(f)
        for d in cfg.nodes.values():
            if d.ast is None or d.id == nid or isinstance(d.ast, (ast.FunctionDef, ast.ClassDef)):
                continue
            root = d.ast.iter if d.kind == 'for' else d.ast
            if d.kind in ('stmt', 'test', 'return', 'for') and any(
                    isinstance(c, ast.Call) and dotted(c.func) == 'get_and_check_odes' for c in ast.walk(root)) \
                    and cfg.dominates(d.id, nid):
                return f'after {d.text()[:50]}'
        g = G_.guarded(cfg, nid, detector_true)
        if g:
            return f'under {g[0][0].text()[:50]}'
        if var:
            def not_none(e):
                if isinstance(e, ast.Compare) and len(e.ops) == 1 and unparse(e.left) == var \
                        and isinstance(e.comparators[0], ast.Constant) and e.comparators[0].value is None:
                    return isinstance(e.ops[0], ast.IsNot) if isinstance(e.ops[0], (ast.Is, ast.IsNot)) else None
                return None
            g = G_.guarded(cfg, nid, not_none)
            if g:
                return f'under {g[0][0].text()[:50]}'
        return None

    def reaches_unprotected(f, nid, var, depth=3, trail=()):
        """a path from a public setter to this node on which nothing established that the model has an ODE system"""
        if protected(f, nid, var):
            return None
        if not f.name.startswith('_'):
            return (f.name,) + trail
        if depth == 0:
            return None
        for caller, call in callers.get(f.name, []):
            cn = reach_node(caller, call)
            if cn is None:
                continue
            r = reaches_unprotected(caller, cn, None, depth - 1, (f.name,) + trail)
            if r:
                return r
        return None

    def reach_node(f, sub):
        from sa import reach
        return reach.node_containing(cfg_of(f), sub)
    n = 0
    for name, f in sorted(funcs.items()):
        cfg = cfg_of(f)
        # locals bound to <x>.ode_system
        ode_vars = {a.targets[0].id for a in walk_no_nested(f.node) if isinstance(a, ast.Assign)
                    and isinstance(a.targets[0], ast.Name) and isinstance(a.value, ast.Attribute) and a.value.attr == 'ode_system'}
        for nd in cfg.nodes.values():
            a = nd.ast
            if nd.kind != 'stmt' or not isinstance(a, ast.Assert):
                continue
            t = a.test
            var = None
            if isinstance(t, ast.Call) and dotted(t.func) == 'isinstance' and len(t.args) == 2 \
                    and isinstance(t.args[0], ast.Name) and unparse(t.args[1]) == 'CompartmentalSystem':
                var = t.args[0].id
            elif isinstance(t, ast.Compare) and isinstance(t.left, ast.Name) and len(t.ops) == 1 \
                    and isinstance(t.ops[0], ast.IsNot) and isinstance(t.comparators[0], ast.Constant) \
                    and t.comparators[0].value is None:
                var = t.left.id
            if var is None or var not in ode_vars:
                continue
            n += 1
            why = protected(f, nd.id, var)
            path = None if why else reaches_unprotected(f, nd.id, var)
            setters = [p for p in (path or ()) if p.startswith(('set_', 'add_', 'remove_'))]
            chk.instance(T10, f'{name}: `{nd.text()[:60]}` {why or ("reached from " + " -> ".join(path) if path else "not reached from a public function unprotected")}')
            if path and setters:
                chk.violation(T10, om.rel, name, nd.text()[:80],
                              f'reached from {" -> ".join(path)} without anything having established that the model has an ODE '
                              f'system: a model without one fails with AssertionError where the sibling setters refuse with '
                              f'the documented "has no ODE system" error', line=nd.line,
                              witness='a $PRED model (tests/testdata/nonmem/models/minimal_missing.mod): '
                                      'set_michaelis_menten_elimination(model) raises AssertionError')
    if n == 0:
        raise AnalysisError('T10: no assert on an ODE system found in modeling/odes.py (anchor moved)')


def run_t11(chk, repo):
    """a symbol written by name into a new flow rate (Expr.symbol('VC')) reaches the flow only where a membership test has
    shown that the old rate uses it"""
    from sa import guards as G_, reach
    T11 = chk.rule('T11', 'elimination / absorption setters: a symbol created from a literal name and used in the rate of '
                          'cb.add_flow reaches that call only on paths where it was found in the free symbols of the old rate',
                   floor=2)
    om = repo.module(ODES)
    n = 0
    for name, f in sorted(dict.items(om.functions)):
        if f.cls is not None or f.parent is not None:
            continue
        flows = [c for c in calls_in(f.node) if isinstance(c.func, ast.Attribute) and c.func.attr == 'add_flow' and len(c.args) >= 3]
        if not flows:
            continue
        cfg = CFG(f.node)
        for c in flows:
            at = reach.node_containing(cfg, c)
            if at is None:
                continue
            for nm in {x.id for x in ast.walk(c.args[2]) if isinstance(x, ast.Name)}:
                found, _entry = reach.reaching(cfg, at, nm)
                for d in found:
                    a = cfg.nodes[d].ast
                    if not (isinstance(a, ast.Assign) and isinstance(a.value, ast.Call) and dotted(a.value.func) == 'Expr.symbol'
                            and a.value.args and isinstance(a.value.args[0], ast.Constant)):
                        continue
                    lit = a.value.args[0].value
                    # defined by this function itself (a parameter it adds)? then it exists
                    creates = any(isinstance(k, ast.Call) and (dotted(k.func) or '').endswith(('add_individual_parameter',
                                                                                              '_add_parameter'))
                                  and any(isinstance(z, ast.Constant) and z.value == lit for z in k.args)
                                  for k in calls_in(f.node))
                    if creates:
                        continue
                    n += 1
                    # edges on which `<nm> in X.free_symbols` is known to hold
                    def member(e, nm=nm):
                        if isinstance(e, ast.Compare) and len(e.ops) == 1 and isinstance(e.ops[0], (ast.In, ast.NotIn)) \
                                and unparse(e.left) == nm and 'free_symbols' in unparse(e.comparators[0]):
                            return isinstance(e.ops[0], ast.In)
                        return None
                    drop = set()
                    for t in cfg.nodes.values():
                        if t.kind == 'test' and t.ast is not None:
                            lab = G_.edge_label(t.ast, member)
                            if lab:
                                drop |= {(t.id, m_) for m_ in cfg.g.successors(t.id) if lab in cfg.g[t.id][m_]['labels']}
                    others = reach.defs(cfg, nm) - {d}
                    unguarded = at in cfg.reachable(d, avoid=others, drop_edges=drop, labels_excluded=('exc', 'fexc'))
                    chk.instance(T11, f'{name}: `{unparse(a)[:50]}` reaches `{unparse(c)[:50]}` only after a membership test: '
                                      f'{not unguarded}')
                    if unguarded:
                        chk.violation(T11, om.rel, name, f'{unparse(a)} ... {unparse(c)[:60]}',
                                      f'the rate is written with the symbol {lit} although nothing established that the model '
                                      f'has it: when the volume is called V1/V2 the new rate refers to an undefined {lit}',
                                      line=cfg.nodes[d].line,
                                      witness='PERIPHERALS(1); ELIMINATION(MIX-FO-MM); ELIMINATION(FO) on a model whose volume is '
                                              'V: the flow becomes CL/VC with VC undefined')
    if n < 2:
        raise AnalysisError(f'T11: only {n} literal symbols in flow rates found in modeling/odes.py')


def run_t12(chk, repo):
    """absorption is what flows INTO the central compartment: its detector must read a direction-aware quantity"""
    T12 = chk.rule('T12', 'has_first_order_absorption decides on the inflows of the central compartment, not on a '
                          'direction-blind neighbour count', floor=1)
    om = repo.module(ODES)
    f = om.functions.get('has_first_order_absorption')
    if f is None:
        raise AnalysisError('has_first_order_absorption not found')
    attrs = {c.func.attr for c in calls_in(f.node) if isinstance(c.func, ast.Attribute)}
    # helpers of the same module are looked into (one level)
    for c in calls_in(f.node):
        g = dict.get(om.functions, dotted(c.func) or '')
        if g is not None:
            attrs |= {k.func.attr for k in calls_in(g.node) if isinstance(k.func, ast.Attribute)}
    directed = attrs & {'get_compartment_inflows', 'find_depot', 'get_flow', 'predecessors', 'in_edges'}
    blind = attrs & {'get_n_connected', 'neighbors', 'degree'}
    chk.instance(T12, f'has_first_order_absorption reads {sorted(directed)} (direction aware), {sorted(blind)} (direction blind)')
    if not directed:
        chk.violation(T12, om.rel, f.name, f'decides with {sorted(blind) or sorted(attrs)}',
                      'a compartment that only receives from central (a metabolite compartment) is counted like a depot',
                      line=f.node.lineno,
                      witness='METABOLITE(BASIC) on an oral model: the absorption category disappears from get_model_features, '
                              'a following ABSORPTION(FO) is not a no-op and loses the lag time')


def run_t13_t14(chk, repo):
    """T13: set_instantaneous_absorption removes the depot AND THEN turns a zero-order input into a bolus (a sequential
    zero-order / first-order model needs both steps); T14: get_model_features reports every category from its own detector,
    not conditioned on what another category found"""
    om = repo.module(ODES)
    T13 = chk.rule('T13', 'set_instantaneous_absorption: the zero-order step is tested after the depot step, not instead of it',
                   floor=1)
    f = om.functions.get('set_instantaneous_absorption')
    if f is None:
        raise AnalysisError('set_instantaneous_absorption not found')
    cfg = CFG(f.node)
    zo = [n for n in cfg.nodes.values() if n.kind == 'test' and n.ast is not None and any(
        isinstance(c, ast.Call) and dotted(c.func) == 'has_zero_order_absorption' for c in ast.walk(n.ast))]
    depot_steps = [n for n in cfg.nodes.values() if n.kind == 'stmt' and n.ast is not None and any(
        isinstance(c, ast.Call) and isinstance(c.func, ast.Attribute) and c.func.attr in ('remove_compartment', 'move_dose')
        for c in ast.walk(n.ast))]
    if not zo or not depot_steps:
        raise AnalysisError(f'T13: zero-order test ({len(zo)}) / depot removal ({len(depot_steps)}) not found')
    for z in zo:
        ok = any(z.id in cfg.reachable(d.id, labels_excluded=('exc', 'fexc')) for d in depot_steps)
        chk.instance(T13, f'set_instantaneous_absorption: `{unparse(z.ast)[:50]}` is still tested after the depot was removed: {ok}')
        if not ok:
            chk.violation(T13, om.rel, f.name, f'elif {unparse(z.ast)[:50]}',
                          'for a sequential zero-order / first-order absorption only the depot is removed: the infusion into '
                          'the central compartment stays', line=z.line,
                          witness='set_seq_zo_fo_absorption then set_instantaneous_absorption: the model is detected as zero '
                                  'order absorption, a second call changes it again')
    T14 = chk.rule('T14', 'get_model_features: the lag-time feature is has_lag_time(model), whatever the other features are',
                   floor=1)
    pm = repo.module(f'{MFL}.parse')
    g = pm.functions.get('get_model_features')
    if g is None:
        raise AnalysisError('get_model_features not found')
    n14 = 0
    for a in walk_no_nested(g.node):
        if isinstance(a, ast.Assign) and isinstance(a.targets[0], ast.Name) and any(
                isinstance(c, ast.Call) and dotted(c.func) == 'has_lag_time' for c in ast.walk(a.value)):
            n14 += 1
            def is_det(e):
                while isinstance(e, ast.UnaryOp) and isinstance(e.op, ast.Not):
                    e = e.operand
                return isinstance(e, ast.Call) and dotted(e.func) == 'has_lag_time'
            # the detector decides alone: the value is its result, or a conditional expression whose TEST is its result
            direct = is_det(a.value) or (isinstance(a.value, ast.IfExp) and is_det(a.value.test) and not any(
                is_det(x) for x in [*ast.walk(a.value.body), *ast.walk(a.value.orelse)]))
            chk.instance(T14, f'get_model_features: `{unparse(a)[:60]}` takes the detector result as it is: {direct}')
            if not direct:
                chk.violation(T14, pm.rel, g.name, unparse(a)[:90],
                              'the detector is consulted only for some values of another feature: a model with that feature and '
                              'a lag time is reported without LAGTIME(ON)', line=a.lineno,
                              witness='TRANSITS(3) then add_lag_time: get_model_features has no LAGTIME(ON) although has_lag_time '
                                      'is True')
    if n14 == 0:
        raise AnalysisError('T14: has_lag_time(model) not found in get_model_features')


def run_t15_t16(chk, repo):
    """Reversibility: undoing a structural feature leaves no definition behind.
    T15: remove_peripheral_compartment cleans up the symbols of BOTH flows of the removed compartment (into it and out of it):
    with rate-constant coding (K12 / K21, TRANS1) the two flows share no symbol.
    T16: add_lag_time on a model that already has a lag time cleans up the OLD lag time: the value it cleans up is read from the
    dose compartment as it was before set_lag_time replaced it"""
    from sa import reach
    from sa.cfg import CFG
    om = repo.module('pharmpy.modeling.odes')
    T15 = chk.rule('T15', 'remove_peripheral_compartment: the symbols handed to remove_symbol_definitions come from the flow into '
                          'the removed compartment and from the flow out of it', floor=1)
    f = om.functions.get('remove_peripheral_compartment')
    if f is None:
        raise AnalysisError('T15: remove_peripheral_compartment not found')
    cfg = CFG(f.node)
    n = 0
    for nd in cfg.nodes.values():
        if nd.ast is None or nd.kind != 'stmt':
            continue
        for c in [c for c in ast.walk(nd.ast) if isinstance(c, ast.Call) and isinstance(c.func, ast.Attribute)
                  and c.func.attr == 'remove_symbol_definitions' and c.args]:
            rem = [x for m_ in cfg.nodes.values() if m_.ast is not None and m_.kind == 'stmt' and cfg.dominates(m_.id, nd.id)
                   for x in ast.walk(m_.ast) if isinstance(x, ast.Call) and isinstance(x.func, ast.Attribute)
                   and x.func.attr == 'remove_compartment' and x.args]
            if not rem:
                continue
            comp = unparse(rem[-1].args[0])
            # everything the symbol set is computed from: follow the local back through its (possibly accumulating) definitions
            texts, todo, seen_ = [], [(nd.id, c.args[0])], set()
            while todo:
                nid_, e_ = todo.pop()
                texts.append(unparse(e_))
                for x in ast.walk(e_):
                    if isinstance(x, ast.Name) and (nid_, x.id) not in seen_:
                        seen_.add((nid_, x.id))
                        for i_, v_ in (reach.values(cfg, nid_, x.id) or []):
                            todo.append((i_, v_))
                        # loop variables: `for _, rate in odes.get_compartment_outflows(C)`
                        for L in [l_ for l_ in ast.walk(f.node) if isinstance(l_, ast.For)]:
                            if any(isinstance(t, ast.Name) and t.id == x.id for t in ast.walk(L.target)):
                                texts.append(unparse(L.iter))
            into = any(f'get_flow(' in t and t.split('get_flow(')[1].split(')')[0].split(',')[-1].strip() == comp for t in texts) \
                or any(f'get_compartment_inflows({comp})' in t or f'get_bidirectionals({comp})' in t for t in texts)
            outof = any(f'get_flow({comp},' in t for t in texts) or any(
                f'get_compartment_outflows({comp})' in t or f'get_bidirectionals({comp})' in t for t in texts)
            n += 1
            chk.instance(T15, f'remove_peripheral_compartment: cleanup of {comp}: flow into it {into}, flow out of it {outof}')
            if not (into and outof):
                chk.violation(T15, om.rel, f.qualname, unparse(c)[:80],
                              f'only the flow {"out of" if outof else "into"} `{comp}` contributes the symbols that are cleaned '
                              f'up: the rate of the other direction (and its parameter) stays defined in the model',
                              line=c.lineno,
                              witness='a model coded with rate constants (ADVAN3 TRANS1): add_peripheral_compartment then '
                                      'remove_peripheral_compartment leaves KCP1 / POP_KCP1 behind')
    if n == 0:
        raise AnalysisError('T15: the cleanup after remove_compartment was not found in remove_peripheral_compartment')

    T16 = chk.rule('T16', 'add_lag_time: the lag time that is cleaned up is read from the dose compartment before set_lag_time '
                          'replaced it', floor=1)
    g = om.functions.get('add_lag_time')
    if g is None:
        raise AnalysisError('T16: add_lag_time not found')
    gcfg = CFG(g.node)
    n = 0
    for nd in gcfg.nodes.values():
        if nd.ast is None or nd.kind != 'stmt':
            continue
        for c in [c for c in ast.walk(nd.ast) if isinstance(c, ast.Call) and isinstance(c.func, ast.Attribute)
                  and c.func.attr == 'remove_symbol_definitions' and c.args]:
            # the reads `<comp>.lag_time` the first argument is computed from
            todo, seen_, reads = [(nd.id, c.args[0])], set(), []
            while todo:
                nid_, e_ = todo.pop()
                for x in ast.walk(e_):
                    if isinstance(x, ast.Attribute) and x.attr == 'lag_time' and isinstance(x.value, ast.Name):
                        reads.append((nid_, x))
                    if isinstance(x, ast.Name) and (nid_, x.id) not in seen_:
                        seen_.add((nid_, x.id))
                        for i_, v_ in (reach.values(gcfg, nid_, x.id) or []):
                            todo.append((i_, v_))
            for nid_, r in reads:
                defs = reach.values(gcfg, nid_, r.value.id) or []
                new = [v_ for _i, v_ in defs if isinstance(v_, ast.Call) and isinstance(v_.func, ast.Attribute)
                       and v_.func.attr == 'set_lag_time']
                n += 1
                chk.instance(T16, f'add_lag_time: cleans up `{unparse(r)}` read before the replacement: {not new}')
                if new:
                    chk.violation(T16, om.rel, g.qualname, f'{unparse(r)} after {unparse(new[0])[:50]}',
                                  f'`{r.value.id}` is already the compartment returned by set_lag_time: its lag time is the NEW '
                                  f'one, the definitions of the old lag time are never removed', line=r.lineno,
                                  witness='add_lag_time on a model that has a lag time: two ALAG1 assignments, a left-over MDT '
                                          'statement and an extra POP_MDT parameter')
    if n == 0:
        raise AnalysisError('T16: the cleanup of the previous lag time was not found in add_lag_time')


def run_t17(chk, repo):
    """T17: remove_unused_parameters_and_rvs (the last step of every structural setter) keeps an unused parameter only when it
    is a placeholder, i.e. fixed AND zero; a fixed non-zero parameter whose definition was removed (POP_KM of zero-order
    elimination) must go, or the detectors (has_zero_order_elimination: 'POP_KM in parameters and fixed') misreport later."""
    T17 = chk.rule('T17', '_get_unused_parameters_and_rvs: the keep-although-unused test on <p>.fix is conjoined with '
                          '<p>.init == 0', floor=1)
    m = repo.module('pharmpy.modeling.common')
    f = m.functions.get('_get_unused_parameters_and_rvs')
    if f is None:
        raise AnalysisError('T17: _get_unused_parameters_and_rvs not found')
    parents = {}
    for p in ast.walk(f.node):
        for ch in ast.iter_child_nodes(p):
            parents[ch] = p
    fixes = [a for a in ast.walk(f.node) if isinstance(a, ast.Attribute) and a.attr == 'fix' and isinstance(a.ctx, ast.Load)]
    if not fixes:
        raise AnalysisError('T17: no read of <parameter>.fix in _get_unused_parameters_and_rvs')

    def zero_init(e, subj):
        return any(isinstance(c, ast.Compare) and len(c.ops) == 1 and isinstance(c.ops[0], ast.Eq)
                   and {type(c.left), type(c.comparators[0])} == {ast.Attribute, ast.Constant}
                   and any(isinstance(x, ast.Attribute) and x.attr == 'init' and unparse(x.value) == subj
                           for x in (c.left, c.comparators[0]))
                   and any(isinstance(x, ast.Constant) and x.value == 0 and x.value is not False
                           for x in (c.left, c.comparators[0]))
                   for c in ast.walk(e))
    for a in fixes:
        subj = unparse(a.value)
        n, conj = a, None
        while n in parents:
            p = parents[n]
            if isinstance(p, ast.BoolOp) and isinstance(p.op, ast.And):
                conj = p
                break
            if isinstance(p, (ast.stmt, ast.comprehension, ast.Lambda)) or (isinstance(p, ast.BoolOp) and isinstance(p.op, ast.Or)) \
                    or (isinstance(p, ast.UnaryOp) and isinstance(p.op, ast.Not)):
                break
            n = p
        # a nested `if p.fix: if p.init == 0:` counts as a conjunction
        if conj is None:
            st = a
            while st in parents and not isinstance(st, ast.stmt):
                st = parents[st]
            if isinstance(st, ast.If) and any(a is x for x in ast.walk(st.test)) and len(st.body) == 1 \
                    and isinstance(st.body[0], ast.If) and zero_init(st.body[0].test, subj):
                conj = st.body[0].test
            up = parents.get(st)
            if conj is None and isinstance(up, ast.If) and st in up.body and len(up.body) == 1 and zero_init(up.test, subj):
                conj = up.test
        ok = conj is not None and zero_init(conj, subj)
        chk.instance(T17, f'_get_unused_parameters_and_rvs: {unparse(conj if conj is not None else a)[:60]}: fixed and zero: {ok}')
        if not ok:
            chk.violation(T17, m.rel, f.qualname, unparse(parents.get(a, a))[:80],
                          f'every fixed parameter survives the pruning, not only the zero placeholders', line=a.lineno,
                          witness='set_zero_order_elimination; set_first_order_elimination; set_michaelis_menten_elimination: '
                                  'a fixed POP_KM is left behind and has_zero_order_elimination answers True for the MM model')
